// vd_lifecycle.cpp -- vdriver commands of property C10 (interpreter life-cycle).
//
// Every case runs in a forked child with a watchdog in the parent, so that a crash or a hang of the
// implementation is an observation ("CRASH:sig11", "HANG") and not the end of the run.
//
//   lifecycle <engine> <xml-hex> <op>...
//        engine: default (micro-stepper created lazily by init()) | large | fast (set through ActionLanguage)
//        ops:    s = step(0)   r<N> = receive(Event("e<N>")), r0 = receive(Event())   c = cancel()
//                x = reset()   d = destroy (drop the last handle)
//        prints  state:<getState()> then one token per op:
//                step    -> <RESULT>[<items>]{<config>}   items: '<' beforeCompletion, '>' afterCompletion,
//                           N = a <log label="N"> ran;  config: ids of active states that are numbers
//                receive/cancel -> ok      reset -> state:<getState()>     destroy -> destroyed
//                and "end" after the implicit destruction at the end of the case.
//   lifecycle_enum
//        the compiled values of enum InterpreterState
//   cancelblock <engine> <xml-hex> <script> <timeout_ms> [sched-item...]
//        a stepper thread (role "stepper") loops step(forever) until FINISHED; the main thread (role
//        "canceller") plays <script> (comma separated: w<ms> wait, r<N> receive, c cancel, p<k> wait until
//        the stepper passed queue.dequeue.locked k times) ; prints the stepper's results.
//   teardown <mode> <ntimers> <delay_ms> <nlate> <wait_c> <wait_fired> <arrive:0|1> <settle_ms> [sched-item...]
//        <ntimers> delayed events expire after delay_ms*(i+1), <nlate> more do not expire during the case
//        mode queue: a BasicDelayedEventQueue on its own;  mode interp: an interpreter (s0 included)
//        waits until the timer thread passed (arrive=0) / arrived at (arrive=1) delay.run.started_checked
//        <wait_c> times and <wait_fired> callbacks were delivered, sleeps <settle_ms>, destroys.
//        prints "returned fired=<n> log=<points passed>".
#include "uscxml/config.h"
#include "uscxml/Common.h"
#include "uscxml/Interpreter.h"
#include "uscxml/interpreter/InterpreterImpl.h"
#include "uscxml/interpreter/InterpreterMonitor.h"
#include "uscxml/interpreter/BasicDelayedEventQueue.h"
#include "uscxml/interpreter/MicroStep.h"
#include "uscxml/plugins/Factory.h"
#include "uscxml/util/DOM.h"

#include <atomic>
#include <thread>
#include <chrono>
#include <string>
#include <sstream>
#include <vector>
#include <cstring>
#include <csignal>
#include <cerrno>
#include <limits>
#include <fcntl.h>
#include <unistd.h>
#include <poll.h>
#include <sys/wait.h>
#include <sys/types.h>

#include "vd_common.h"
#include "vd_sched.h"

using namespace uscxml;

namespace {

const char* state_name(InterpreterState s) {
	switch (s) {
	case USCXML_FINISHED: return "FINISHED";
	case USCXML_UNDEF: return "UNDEF";
	case USCXML_IDLE: return "IDLE";
	case USCXML_INITIALIZED: return "INITIALIZED";
	case USCXML_INSTANTIATED: return "INSTANTIATED";
	case USCXML_MICROSTEPPED: return "MICROSTEPPED";
	case USCXML_MACROSTEPPED: return "MACROSTEPPED";
	case USCXML_CANCELLED: return "CANCELLED";
	}
	return "?";
}

int g_out = 1;   // pipe to the parent
void emit(const std::string& tok) {
	std::string s = tok + " ";
	ssize_t r = write(g_out, s.data(), s.size());
	(void)r;
}

bool all_digits(const std::string& s) {
	if (s.empty()) return false;
	for (char c : s) if (c < '0' || c > '9') return false;
	return true;
}

struct LogMonitor : public InterpreterMonitor {
	std::vector<std::string> items;
	virtual void beforeExecutingContent(const std::string& sessionId, const XERCESC_NS::DOMElement* element) {
		std::string tag = X(element->getLocalName() ? element->getLocalName() : element->getTagName()).str();
		if (tag == "log" && element->hasAttribute(X("label"))) {
			items.push_back(X(element->getAttribute(X("label"))).str());
		}
	}
	virtual void beforeCompletion(const std::string& sessionId) { items.push_back("<"); }
	virtual void afterCompletion(const std::string& sessionId) { items.push_back(">"); }
	std::string take() {
		std::string out;
		for (size_t i = 0; i < items.size(); i++) { if (i) out += ","; out += items[i]; }
		items.clear();
		return out;
	}
};

// arrival counters for the hook points (on top of the schedule controller)
std::atomic<int> g_arrived_c(0), g_passed_c(0), g_fired(0), g_deq_locked(0);
void counting_point(const char* name) {
	bool is_c = strcmp(name, "delay.run.started_checked") == 0;
	if (is_c) g_arrived_c++;
	if (strcmp(name, "delay.callback.delivered") == 0) g_fired++;
	vd_sched_point(name);
	if (is_c) g_passed_c++;
	if (strcmp(name, "queue.dequeue.locked") == 0 && vd_sched_thread_role() == "stepper") g_deq_locked++;
}

void sleep_ms(int ms) { std::this_thread::sleep_for(std::chrono::milliseconds(ms)); }
template <class F> bool wait_for(F cond, int timeout_ms) {
	auto deadline = std::chrono::steady_clock::now() + std::chrono::milliseconds(timeout_ms);
	while (!cond()) {
		if (std::chrono::steady_clock::now() > deadline) return false;
		std::this_thread::sleep_for(std::chrono::microseconds(200));
	}
	return true;
}

Interpreter make_interpreter(const std::string& engine, const std::string& xml) {
	Interpreter ip = Interpreter::fromXML(xml, "");
	if (engine == "large" || engine == "fast") {
		ActionLanguage al;
		al.microStepper = MicroStep(Factory::getInstance()->createMicroStepper(engine, ip.getImpl().get()));
		ip.setActionLanguage(al);
	}
	return ip;
}

std::string config_of(Interpreter& ip) {
	std::string out;
	std::list<XERCESC_NS::DOMElement*> cfg = ip.getConfiguration();
	for (auto el : cfg) {
		if (!el->hasAttribute(X("id"))) continue;
		std::string id = X(el->getAttribute(X("id"))).str();
		if (!all_digits(id)) continue;
		if (!out.empty()) out += ",";
		out += id;
	}
	return out;
}

// the sequential cases keep clear of the tear-down race (it is the subject of `teardown`): before an
// interpreter that was initialised is destroyed, the timer thread is given time to reach its dispatcher
void settle_timer_thread(bool initialised) {
	if (!initialised) return;
	wait_for([] { return g_passed_c.load() > 0; }, 1000);
	std::this_thread::sleep_for(std::chrono::microseconds(500));
}

// ---- child bodies -------------------------------------------------------------------------

void child_lifecycle(const std::vector<std::string>& a) {
	const std::string& engine = a[1];
	std::string xml = unhex(a[2]);
	uscxml_verif_point = counting_point;
	LogMonitor mon;
	Interpreter ip = make_interpreter(engine, xml);
	ip.addMonitor(&mon);
	emit(std::string("state:") + state_name(ip.getState()));
	bool initialised = false;
	bool destroyed = false;
	for (size_t i = 3; i < a.size() && !destroyed; i++) {
		const std::string& op = a[i];
		try {
			if (op == "s") {
				InterpreterState r = ip.step(0);
				initialised = true;
				std::string logs = mon.take();
				emit(std::string(state_name(r)) + "[" + logs + "]{" + config_of(ip) + "}");
			} else if (op[0] == 'r') {
				Event e;
				if (op != "r0") e.name = "e" + op.substr(1);
				ip.receive(e);
				emit("ok");
			} else if (op == "c") {
				ip.cancel();
				emit("ok");
			} else if (op == "x") {
				ip.reset();
				emit(std::string("state:") + state_name(ip.getState()));
			} else if (op == "d") {
				settle_timer_thread(initialised);
				ip = Interpreter();
				destroyed = true;
				emit("destroyed");
			} else {
				emit("ERR:op");
			}
		} catch (Event& e) {
			emit("EXC:" + e.name);
		} catch (std::exception& e) {
			emit("EXC:std");
		} catch (...) {
			emit("EXC:unknown");
		}
	}
	if (!destroyed) {
		settle_timer_thread(initialised);
		ip = Interpreter();
	}
	emit("end");
}

void child_cancelblock(const std::vector<std::string>& a) {
	const std::string& engine = a[1];
	std::string xml = unhex(a[2]);
	std::vector<std::string> script;
	{
		std::stringstream ss(a[3]);
		std::string t;
		while (std::getline(ss, t, ',')) script.push_back(t);
	}
	int timeout_ms = atoi(a[4].c_str());
	std::vector<std::string> items(a.begin() + 5, a.end());
	LogMonitor mon;
	Interpreter ip = make_interpreter(engine, xml);
	ip.addMonitor(&mon);
	// bring the machine to its first stable, idle configuration without blocking
	for (int i = 0; i < 50; i++) {
		InterpreterState r = ip.step(0);
		if (r == USCXML_IDLE || r == USCXML_FINISHED) break;
	}
	mon.take();
	vd_sched_install(items, timeout_ms);
	uscxml_verif_point = counting_point;
	std::atomic<bool> done(false);
	std::thread stepper([&] {
		vd_sched_role("stepper");
		for (int i = 0; i < 200; i++) {
			InterpreterState r = ip.step(std::numeric_limits<size_t>::max());
			emit(state_name(r));
			if (r == USCXML_FINISHED) break;
		}
		done = true;
	});
	vd_sched_role("canceller");
	for (auto& t : script) {
		if (t[0] == 'w') sleep_ms(atoi(t.c_str() + 1));
		else if (t[0] == 'p') { int k = atoi(t.c_str() + 1); wait_for([k] { return g_deq_locked.load() >= k; }, 3000); sleep_ms(5); }
		else if (t[0] == 'r') { Event e; if (t != "r0") e.name = "e" + t.substr(1); ip.receive(e); }
		else if (t[0] == 'c') ip.cancel();
	}
	stepper.join();    // a lost cancellation shows as HANG (watchdog of the parent)
	bool stuck = false;
	size_t remaining = 0;
	vd_sched_finish(&stuck, &remaining);
	emit(std::string("joined stuck=") + (stuck ? "1" : "0"));
	settle_timer_thread(true);
	ip = Interpreter();
	emit("end");
}

struct NullCallbacks : public DelayedEventQueueCallbacks {
	virtual void eventReady(Event& event, const std::string& eventId) {}
};

void child_teardown(const std::vector<std::string>& a) {
	const std::string& mode = a[1];
	int ntimers = atoi(a[2].c_str());
	int delay_ms = atoi(a[3].c_str());
	int nlate = atoi(a[4].c_str());       // timers that do not expire during the case (60 s)
	int wait_c = atoi(a[5].c_str());
	int wait_fired = atoi(a[6].c_str());
	bool arrive = a[7] == "1";
	int settle = atoi(a[8].c_str());
	std::vector<std::string> items(a.begin() + 9, a.end());
	vd_sched_install(items, 1500);
	uscxml_verif_point = counting_point;
	NullCallbacks cb;
	BasicDelayedEventQueue* q = NULL;
	Interpreter ip;
	if (mode == "queue") {
		q = new BasicDelayedEventQueue(&cb);
		for (int i = 0; i < ntimers; i++) {
			Event e;
			e.name = "t";
			q->enqueueDelayed(e, delay_ms * (i + 1), "uuid" + std::to_string(i));
		}
		for (int i = 0; i < nlate; i++) {
			Event e;
			e.name = "late";
			q->enqueueDelayed(e, 60000, "late" + std::to_string(i));
		}
	} else {
		std::string sends;
		for (int i = 0; i < ntimers; i++)
			sends += "<send event=\"t\" delay=\"" + std::to_string(delay_ms * (i + 1)) + "ms\"/>";
		for (int i = 0; i < nlate; i++)
			sends += "<send event=\"late\" delay=\"60s\"/>";
		std::string xml = "<scxml><state id=\"a\"><onentry>" + sends + "</onentry></state></scxml>";
		ip = Interpreter::fromXML(xml, "");
		for (int i = 0; i < 6; i++) ip.step(0);
	}
	bool ok = wait_for([&] {
		return (arrive ? g_arrived_c.load() : g_passed_c.load()) >= wait_c && g_fired.load() >= wait_fired;
	}, 4000);
	if (!ok) emit("precondition-not-reached");
	sleep_ms(settle);
	if (q) delete q;
	else ip = Interpreter();
	bool stuck = false;
	size_t remaining = 0;
	std::vector<std::string> log = vd_sched_finish(&stuck, &remaining);
	std::string l;
	for (auto& p : log) {
		if (p.find("delay.") != 0 && p.find("STUCK") != 0) continue;
		if (!l.empty()) l += ",";
		l += p;
	}
	emit("returned fired=" + std::to_string(g_fired.load()) + " stuck=" + (stuck ? "1" : "0") + " log=" + (l.empty() ? "-" : l));
	emit("end");
}

// ---- parent: fork, collect, watchdog ---------------------------------------------------------

std::string run_child(void (*body)(const std::vector<std::string>&), const std::vector<std::string>& a, int watchdog_ms) {
	int fds[2];
	if (pipe(fds) != 0) return "ERR pipe";
	fflush(stdout);
	pid_t pid = fork();
	if (pid < 0) return "ERR fork";
	if (pid == 0) {
		close(fds[0]);
		g_out = fds[1];
		// keep the implementation's own diagnostics out of the protocol
		int devnull = open("/dev/null", O_WRONLY);
		if (devnull >= 0) { dup2(devnull, 1); dup2(devnull, 2); }
		body(a);
		_exit(0);
	}
	close(fds[1]);
	std::string out;
	auto deadline = std::chrono::steady_clock::now() + std::chrono::milliseconds(watchdog_ms);
	bool hang = false;
	for (;;) {
		int left = (int)std::chrono::duration_cast<std::chrono::milliseconds>(deadline - std::chrono::steady_clock::now()).count();
		if (left <= 0) { hang = true; break; }
		struct pollfd p = { fds[0], POLLIN, 0 };
		int r = poll(&p, 1, left);
		if (r < 0) { if (errno == EINTR) continue; break; }
		if (r == 0) { hang = true; break; }
		char buf[4096];
		ssize_t n = read(fds[0], buf, sizeof(buf));
		if (n <= 0) break;      // EOF: the child is gone
		out.append(buf, n);
	}
	close(fds[0]);
	int status = 0;
	if (hang) {
		kill(pid, SIGKILL);
		waitpid(pid, &status, 0);
		out += "HANG";
	} else {
		waitpid(pid, &status, 0);
		if (WIFSIGNALED(status)) out += "CRASH:sig" + std::to_string(WTERMSIG(status));
		else if (WIFEXITED(status) && WEXITSTATUS(status) != 0) out += "CRASH:exit" + std::to_string(WEXITSTATUS(status));
	}
	while (!out.empty() && out.back() == ' ') out.pop_back();
	return out;
}

// the compiled values of enum InterpreterState (cross-check of tools/translate/tr_flags.py)
std::string cmd_lifecycle_enum(const std::vector<std::string>& a) {
	std::ostringstream os;
	os << "FINISHED=" << (int)USCXML_FINISHED << " UNDEF=" << (int)USCXML_UNDEF << " IDLE=" << (int)USCXML_IDLE
	   << " INITIALIZED=" << (int)USCXML_INITIALIZED << " INSTANTIATED=" << (int)USCXML_INSTANTIATED
	   << " MICROSTEPPED=" << (int)USCXML_MICROSTEPPED << " MACROSTEPPED=" << (int)USCXML_MACROSTEPPED
	   << " CANCELLED=" << (int)USCXML_CANCELLED;
	return os.str();
}

std::string cmd_lifecycle(const std::vector<std::string>& a) {
	if (a.size() < 3) return "ERR usage";
	return run_child(child_lifecycle, a, 8000);
}
std::string cmd_cancelblock(const std::vector<std::string>& a) {
	if (a.size() < 5) return "ERR usage";
	return run_child(child_cancelblock, a, 8000);
}
std::string cmd_teardown(const std::vector<std::string>& a) {
	if (a.size() < 9) return "ERR usage";
	return run_child(child_teardown, a, 4000);
}

}  // namespace

VD_REGISTER(lifecycle, cmd_lifecycle)
VD_REGISTER(lifecycle_enum, cmd_lifecycle_enum)
VD_REGISTER(cancelblock, cmd_cancelblock)
VD_REGISTER(teardown, cmd_teardown)
