#!/usr/bin/env python3
"""pml_run.py -- implementation side of C06: run `uscxml-transform -tpml` on a document, simulate the
emitted Promela model with `spin -T -DTRACE_EXECUTION=1`, and parse the TRACE_EXECUTION lines.

Raw tokens (one per trace line the emitted model prints; the extracted PmlStep model prints the same):
  STEP SP DI DE EV:<n> CF:<bits> ST:<bits> TS:<bits> XS:<bits> INIT FOUND NONE SAVEH HX:<i> HC:<bits>
  HG:<bits> HT:<bits> HI:<bits> DH:<i> FRESH ESTAB DEEP DIN:<i> ADDT:<j> ES:<bits> X:<i> PX:<i> T:<j>
  PT:<j> E:<i> PE:<i> LOG:<z> FIN DONE TIMEOUT LIMIT ERR:<text> ??:<text>
State indices are document-order indices of the (re-sorted) document, transition indices post-fix
indices; `ann` (from the annotated document written with -a) maps them to the ids / vid attributes.

Command line (replay):  pml_run.py file.scxml [--keep DIR]
"""
import os, re, subprocess, sys, tempfile, shutil, hashlib
from concurrent.futures import ThreadPoolExecutor

SPIN_STEPS = 40000
RUN_TIMEOUT = 60

LINE_RULES = [
    (re.compile(r'^Taking a step$'), lambda m: 'STEP'),
    (re.compile(r'^Trying with a spontaneous event$'), lambda m: 'SP'),
    (re.compile(r'^Deqeued an internal event$'), lambda m: 'DI'),
    (re.compile(r'^Deqeued an external event$'), lambda m: 'DE'),
    (re.compile(r'^Establishing optimal transition set for event (-?\d+)$'), lambda m: 'EV:' + m.group(1)),
    (re.compile(r'^Configuration: ([01]*)$'), lambda m: 'CF:' + m.group(1)),
    (re.compile(r'^Selected Transitions: ([01]*)$'), lambda m: 'ST:' + m.group(1)),
    (re.compile(r'^Target Set: ([01]*)$'), lambda m: 'TS:' + m.group(1)),
    (re.compile(r'^Exit Set: ([01]*)$'), lambda m: 'XS:' + m.group(1)),
    (re.compile(r'^Entering initial default completion$'), lambda m: 'INIT'),
    (re.compile(r'^Found transitions$'), lambda m: 'FOUND'),
    (re.compile(r'^Found NO transitions$'), lambda m: 'NONE'),
    (re.compile(r'^Save history configurations$'), lambda m: 'SAVEH'),
    (re.compile(r'^history state (\d+) is about to be exited$'), lambda m: 'HX:' + m.group(1)),
    (re.compile(r'^COMPLET: ([01]*)$'), lambda m: 'HC:' + m.group(1)),
    (re.compile(r'^CONFIG : ([01]*)$'), lambda m: 'HG:' + m.group(1)),
    (re.compile(r'^TMP_STS: ([01]*)$'), lambda m: 'HT:' + m.group(1)),
    (re.compile(r'^History: ([01]*)$'), lambda m: 'HI:' + m.group(1)),
    (re.compile(r'^Descendant completion for history state (\d+)$'), lambda m: 'DH:' + m.group(1)),
    (re.compile(r'^Fresh history in target set$'), lambda m: 'FRESH'),
    (re.compile(r'^Established history in target set$'), lambda m: 'ESTAB'),
    (re.compile(r'^DEEP HISTORY$'), lambda m: 'DEEP'),
    (re.compile(r'^Descendant completion for initial state (\d+)$'), lambda m: 'DIN:' + m.group(1)),
    (re.compile(r'^Adding transition (\d+)!$'), lambda m: 'ADDT:' + m.group(1)),
    (re.compile(r'^Entry Set([01]*)$'), lambda m: 'ES:' + m.group(1)),
    (re.compile(r'^Exiting state (\d+)$'), lambda m: 'X:' + m.group(1)),
    (re.compile(r'^Processing executable content for exiting state (\d+)$'), lambda m: 'PX:' + m.group(1)),
    (re.compile(r'^Taking transition (\d+)$'), lambda m: 'T:' + m.group(1)),
    (re.compile(r'^Processing executable content for transition (\d+)$'), lambda m: 'PT:' + m.group(1)),
    (re.compile(r'^Entering state (\d+)$'), lambda m: 'E:' + m.group(1)),
    (re.compile(r'^Processing executable content for entering state (\d+)$'), lambda m: 'PE:' + m.group(1)),
    (re.compile(r'^Machine finished$'), lambda m: 'FIN'),
    (re.compile(r'^Done$'), lambda m: 'DONE'),
    (re.compile(r'^timeout$'), lambda m: 'TIMEOUT'),
    (re.compile(r'^depth-limit .* reached$'), lambda m: 'LIMIT'),
]
NOISE = re.compile(r'^(ltl \w+:|#processes:|\d+ process(es)? created|\s*\d+:\s+proc |-+$|\t\t|\s*$|spin: .*warning|.*-------------$)')
LOGP = re.compile(r'^L: (-?\d+)')


def parse_raw(text):
    """spin's stdout -> (raw tokens, final variable dump dict)"""
    toks = []
    dump = {}
    for line in text.split('\n'):
        line = line.rstrip('\r')
        if line.startswith('\t\t'):
            m = re.match(r'^\t\t(\S+) = (-?\d+)$', line)
            if m:
                dump[m.group(1)] = int(m.group(2))
            else:
                m = re.match(r'^\t\tqueue \d+ \((\w+)\): (.*)$', line)
                if m:
                    dump['queue:' + m.group(1)] = m.group(2).strip()
            continue
        # <log> output carries no newline: "L: 3L: -4Exiting state 2"
        while True:
            m = LOGP.match(line)
            if not m:
                break
            toks.append('LOG:' + m.group(1))
            line = line[m.end():]
        if line == '' or NOISE.match(line):
            continue
        for rx, f in LINE_RULES:
            m = rx.match(line)
            if m:
                toks.append(f(m))
                break
        else:
            if line.startswith('spin:') or 'rror' in line:
                toks.append('ERR:' + line.strip().replace(' ', '_')[:200])
            else:
                toks.append('??:' + line.strip().replace(' ', '_')[:120])
    return toks, dump


def parse_ann(text):
    """the annotated SCXML document (-a): state index -> id, transition post-fix index -> vid, literal macros"""
    ann = {'state_id': {}, 'trans_vid': {}, 'nstates': 0, 'ntrans': 0}
    for m in re.finditer(r'<(\w+:)?(scxml|state|parallel|final|history|initial)\b([^>]*)>', text):
        attrs = dict(re.findall(r'([\w:]+)="([^"]*)"', m.group(3)))
        if 'documentOrder' in attrs:
            i = int(attrs['documentOrder'])
            ann['state_id'][i] = attrs.get('id', '')
            ann['nstates'] = max(ann['nstates'], i + 1)
    for m in re.finditer(r'<(\w+:)?transition\b([^>]*)>', text):
        attrs = dict(re.findall(r'([\w:]+)="([^"]*)"', m.group(2)))
        if 'postFixOrder' in attrs:
            j = int(attrs['postFixOrder'])
            ann['trans_vid'][j] = attrs.get('vid', '?')
            ann['ntrans'] = max(ann['ntrans'], j + 1)
    return ann


def parse_pml(text):
    """what the emitted text itself says: literal numbering, state macros, the literals OR-ed per transition"""
    info = {'literal': {}, 'state_macro': {}, 'guards': {}, 'queues': {}}
    for m in re.finditer(r'^#define (\w+) (\d+) /\* index for state (.*?) \*/$', text, flags=re.M):
        info['state_macro'][m.group(3)] = int(m.group(2))
    for m in re.finditer(r'^#define (\w+) (\d+) /\* (.*?) \*/$', text, flags=re.M):
        if m.group(3).startswith('index for '):
            continue
        info['literal'][int(m.group(2))] = m.group(3)
        info.setdefault('macro', {})[m.group(1)] = m.group(3)
    macro = info.get('macro', {})
    for m in re.finditer(r'^\s*\|\| \(i == (\d+)( && \(false((?: \|\| \w+ == \w+)*)\))?(.*)\)$', text, flags=re.M):
        j = int(m.group(1))
        if m.group(2) is None:
            lits = None          # no event test: eventless or "*"
        else:
            lits = sorted(macro.get(x, '?' + x) for x in re.findall(r'== (\w+)', m.group(3) or ''))
        info['guards'][j] = {'literals': lits, 'cond': (m.group(4) or '').replace(' && ', '', 1)}
    for m in re.finditer(r'^chan (\w+)\s*= \[(\d+)\]', text, flags=re.M):
        info['queues'][m.group(1)] = int(m.group(2))
    return info


def transform_bin(build_dir):
    return os.path.join(build_dir, 'bin', 'uscxml-transform')


def run_one(scxml_text, workdir, name, build_dir, keep=False, spin_steps=SPIN_STEPS):
    """returns dict: status ('ok' | 'transform-failed' | 'spin-rejected' | 'timeout'), raw (tokens), dump, ann, pml (info)"""
    os.makedirs(workdir, exist_ok=True)
    src = os.path.join(workdir, name + '.scxml')
    pml = os.path.join(workdir, name + '.pml')
    annf = os.path.join(workdir, name + '.ann.scxml')
    with open(src, 'w', encoding='latin-1') as f:
        f.write(scxml_text)
    res = {'status': 'ok', 'raw': [], 'dump': {}, 'ann': None, 'pml': None, 'files': (src, pml)}
    for p in (pml, annf):
        if os.path.exists(p):
            os.remove(p)
    p = None
    for attempt in range(30):
        try:
            p = subprocess.run([transform_bin(build_dir), '-tpml', '-a', annf, '-i', src, '-o', pml],
                               stdout=subprocess.PIPE, stderr=subprocess.STDOUT, timeout=RUN_TIMEOUT)
            break
        except subprocess.TimeoutExpired:
            res['status'] = 'transform-timeout'
            return res
        except OSError as e:
            # the binary is being re-linked by a concurrent build of the same tree
            import time
            time.sleep(2)
    if p is None:
        res['status'] = 'transform-failed'
        res['message'] = 'uscxml-transform cannot be executed'
        return res
    out = p.stdout.decode('utf-8', 'replace')
    if p.returncode != 0 or not os.path.exists(pml) or os.path.getsize(pml) == 0:
        res['status'] = 'transform-failed'
        res['message'] = 'rc=%s %s' % (p.returncode, out[-400:])
        return res
    try:
        res['ann'] = parse_ann(open(annf, encoding='utf-16').read())
    except Exception:
        try:
            res['ann'] = parse_ann(open(annf, 'rb').read().decode('utf-8', 'replace'))
        except Exception as e:
            res['ann'] = None
    text = open(pml, encoding='utf-8', errors='replace').read()
    res['pml'] = parse_pml(text)
    # the emitted model always ends in `ltl w3c { eventually (ROOT_config[ROOT_PASS]) }`; ROOT_PASS only
    # exists for documents with a state called "pass" (finding C06-F1): define it for the others
    extra = ['-DROOT_PASS=0'] if ('ROOT_PASS]' in text and not re.search(r'^#define ROOT_PASS ', text, flags=re.M)) else []
    try:
        p = subprocess.run(['spin', '-T', '-u%d' % spin_steps, '-DTRACE_EXECUTION=1'] + extra + [os.path.basename(pml)],
                           cwd=workdir, stdout=subprocess.PIPE, stderr=subprocess.STDOUT, timeout=RUN_TIMEOUT)
    except subprocess.TimeoutExpired:
        res['status'] = 'spin-timeout'
        return res
    so = p.stdout.decode('utf-8', 'replace')
    res['needs_pass_define'] = bool(extra)
    toks, dump = parse_raw(so)
    res['raw'] = toks
    res['dump'] = dump
    if any(t.startswith('ERR:') for t in toks) and not any(t == 'STEP' for t in toks):
        res['status'] = 'spin-rejected'
        res['message'] = [t for t in toks if t.startswith('ERR:')][0]
    if not keep:
        for f in (src, pml, annf):
            try:
                os.remove(f)
            except OSError:
                pass
    return res


def run_many(items, workdir, build_dir, workers=128, keep=False):
    """items: list of (name, scxml text); results in order.  uscxml-transform sleeps ~1 s at start-up
    (its HTTP server), so many more workers than cores are useful.  spin writes pan.pre into its working
    directory: every worker thread has a directory of its own."""
    import threading
    os.makedirs(workdir, exist_ok=True)

    def job(n, x):
        d = os.path.join(workdir, 't%d' % threading.get_ident())
        return run_one(x, d, n, build_dir, keep)
    with ThreadPoolExecutor(max_workers=workers) as ex:
        futs = [ex.submit(job, n, x) for (n, x) in items]
        return [f.result() for f in futs]


# ------------------------------------------------------------------ verification mode (spin -a + pan)

def never_claim(cfg_seq, prefix='ROOT_'):
    """a never claim that is violated exactly by the runs that do NOT follow the predicted sequence of
    configurations: cfg_seq is a list of bit strings, one per change of the configuration.  The claim follows
    the sequence (stuttering while the configuration is unchanged; values inside one d_step are not visible to
    a claim); it reaches its end -- a violation -- when the configuration takes a value that is neither the
    current nor the next predicted one, and every state before the last predicted configuration is an accept
    state, so that a run that stays for ever short of the predicted end is an acceptance cycle (pan -a)."""
    def pred(bits):
        return '(' + ' && '.join('%s%sconfig[%d]' % ('' if b == '1' else '!', prefix, i) for i, b in enumerate(bits)) + ')'
    lines = ['never {']
    n = len(cfg_seq)
    for k, bits in enumerate(cfg_seq):
        name = ('accept_S%d' if k + 1 < n else 'S%d') % k
        lines.append('%s:' % name)
        lines.append('  if')
        lines.append('  :: %s -> goto %s' % (pred(bits), name))
        if k + 1 < n:
            nxt = ('accept_S%d' if k + 2 < n else 'S%d') % (k + 1)
            lines.append('  :: %s -> goto %s' % (pred(cfg_seq[k + 1]), nxt))
            lines.append('  :: !%s && !%s -> goto bad' % (pred(bits), pred(cfg_seq[k + 1])))
        else:
            lines.append('  :: !%s -> goto bad' % pred(bits))
        lines.append('  fi;')
    lines.append('bad: skip')
    lines.append('}')
    return '\n'.join(lines) + '\n'


def verify_one(scxml_text, cfg_seq, workdir, name, build_dir):
    """spin -a + gcc + pan with the never claim built from cfg_seq.  Returns dict status: 'holds' | 'violated' | error"""
    os.makedirs(workdir, exist_ok=True)
    src = os.path.join(workdir, name + '.scxml')
    pml = os.path.join(workdir, name + '.pml')
    with open(src, 'w', encoding='latin-1') as f:
        f.write(scxml_text)
    p = subprocess.run([transform_bin(build_dir), '-tpml', '-i', src, '-o', pml], stdout=subprocess.PIPE, stderr=subprocess.STDOUT, timeout=RUN_TIMEOUT)
    if p.returncode != 0 or not os.path.exists(pml):
        return {'status': 'transform-failed'}
    text = open(pml, encoding='utf-8', errors='replace').read()
    # the emitted ltl formula is replaced by the never claim (a model has one claim)
    text = re.sub(r'^ltl w3c \{.*\}\s*$', '', text, flags=re.M)
    text = re.sub(r'^#define TRACE_EXECUTION\s+1\s*$', '#define TRACE_EXECUTION 0', text, flags=re.M)
    text += '\n' + never_claim(cfg_seq)
    with open(pml, 'w') as f:
        f.write(text)
    d = os.path.join(workdir, name + '.pan')
    os.makedirs(d, exist_ok=True)
    p = subprocess.run(['spin', '-a', pml], cwd=d, stdout=subprocess.PIPE, stderr=subprocess.STDOUT, timeout=RUN_TIMEOUT)
    if p.returncode != 0 or not os.path.exists(os.path.join(d, 'pan.c')):
        return {'status': 'spin-a-failed', 'message': p.stdout.decode('utf-8', 'replace')[-400:]}
    p = subprocess.run(['gcc', '-O1', '-DMEMLIM=512', '-DVECTORSZ=8192', '-DXUSAFE', '-DNOREDUCE', '-w', 'pan.c', '-o', 'pan'], cwd=d,
                       stdout=subprocess.PIPE, stderr=subprocess.STDOUT, timeout=300)
    if p.returncode != 0:
        return {'status': 'gcc-failed', 'message': p.stdout.decode('utf-8', 'replace')[-400:]}
    p = subprocess.run(['./pan', '-a', '-m200000', '-n'], cwd=d, stdout=subprocess.PIPE, stderr=subprocess.STDOUT, timeout=300)
    out = p.stdout.decode('utf-8', 'replace')
    m = re.search(r'errors: (\d+)', out)
    st = 'unknown'
    if m:
        st = 'holds' if m.group(1) == '0' else 'violated'
    if 'max search depth too small' in out:
        st += '+depth'
    shutil.rmtree(d, ignore_errors=True)
    for f in (src, pml):
        try:
            os.remove(f)
        except OSError:
            pass
    return {'status': st, 'states': (re.search(r'(\d+) states, stored', out) or [None, '?'])[1], 'tail': out[-300:] if st != 'holds' else ''}


if __name__ == '__main__':
    import argparse, json
    ap = argparse.ArgumentParser()
    ap.add_argument('file')
    ap.add_argument('--keep')
    ap.add_argument('--build', default='/verif/.build/hooks')
    a = ap.parse_args()
    wd = a.keep or tempfile.mkdtemp(prefix='pmlrun')
    r = run_one(open(a.file, encoding='latin-1').read(), wd, 'replay', a.build, keep=bool(a.keep))
    print(r['status'], r.get('message', ''))
    print(' '.join(r['raw']))
    print(json.dumps({'ann': r['ann'], 'literals': (r['pml'] or {}).get('literal'), 'guards': (r['pml'] or {}).get('guards'), 'dump_config': {k: v for k, v in r['dump'].items() if 'config' in k or 'Var' in k}}, default=str))
    if not a.keep:
        shutil.rmtree(wd, ignore_errors=True)
