// vd_cgen.cpp -- C04: run the ANSI-C transpiler in process.
//   cgen <hex scxml> <output file>
// ChartToC::transform + writeTo, exactly what `uscxml-transform -tc -i doc -o file` does (the check runs the
// command line tool on the corpus as well and compares the two texts); answers `OK <bytes>` or `EVENT <name>`.
#include "uscxml/config.h"
#include "uscxml/Common.h"
#include "uscxml/Interpreter.h"
#include "uscxml/transform/ChartToC.h"

#include <fstream>
#include <sstream>
#include "vd_common.h"

using namespace uscxml;

namespace {

std::string cmd_cgen(const std::vector<std::string>& a) {
	if (a.size() != 3) return "ERR usage";
	Interpreter* inp = new Interpreter(Interpreter::fromXML(unhex(a[1]), ""));
	std::string result;
	try {
		Transformer tr = ChartToC::transform(*inp);
		std::stringstream ss;
		tr.writeTo(ss);
		std::ofstream out(a[2].c_str(), std::ios::binary | std::ios::trunc);
		out << ss.str();
		out.close();
		std::ostringstream o;
		o << "OK " << ss.str().size();
		result = o.str();
	} catch (Event& e) {
		result = "EVENT " + e.name;
	} catch (std::exception& e) {
		result = std::string("EXC ") + e.what();
	}
	vd_reap(inp);
	return result;
}

}

VD_REGISTER(cgen, cmd_cgen)
