// vd_serialize.cpp -- C14: `serialize-resume <engine> <hex scxml> <fuel> <k> <item>*` and
// `serialize-foreign <engine> <hex scxml A> <hex scxml B> <fuel> <k> <item>*`.
//
// The document is interpreted with a recording monitor (the one of vd_run.cpp, copied).  At the k-th
// macrostep boundary (0-based count of step() results MACROSTEPPED / IDLE / FINISHED) Interpreter::serialize()
// is called, a fresh interpreter for the same document is created, Interpreter::deserialize() is applied and the
// remaining items are fed to BOTH.  An item is a hex event name or `@t` (tick: every pending delayed event is
// made due now, in the order of their due times, through libevent's event_active; nothing else about the queue
// is touched).  Delayed sends of the generated charts carry delays of minutes, so no timer fires on its own.
//
// Output (one line):  SR k=<k> nb=<boundaries seen> at=<rc> | PRE <tokens> | SNAP <hex json> | OQ <eq>;<dq> |
//                     ORIG <tokens> | OD <data> | RQ <eq>;<dq> | RES <tokens> | RD <data>
// with SERFAIL / DESERFAIL <hex message> instead of the later fields when a call throws.
#include "uscxml/config.h"
#include "uscxml/Common.h"
#include "uscxml/Interpreter.h"
#include "uscxml/interpreter/InterpreterImpl.h"
#include "uscxml/interpreter/InterpreterMonitor.h"
#include "uscxml/interpreter/LoggingImpl.h"
#include "uscxml/interpreter/MicroStep.h"
#include "uscxml/interpreter/BasicEventQueue.h"
#include "uscxml/interpreter/BasicDelayedEventQueue.h"
#include "uscxml/plugins/Factory.h"
#include "uscxml/util/DOM.h"

#include <event2/event.h>
#include <algorithm>
#include <atomic>
#include <chrono>
#include <iostream>
#include <sstream>
#include <thread>
#include "vd_common.h"

using namespace uscxml;
using namespace XERCESC_NS;

namespace {

struct SzRecorder {
	std::ostringstream out;
	void tok(const std::string& t) { out << t << " "; }
	std::string take() { std::string s = out.str(); out.str(""); return s; }
};

static std::string szSidOf(const DOMElement* state) {
	if (HAS_ATTR(state, X("id"))) {
		std::string id = ATTR(state, X("id"));
		if (id.size() > 1 && id[0] == 's') return id.substr(1);
		return id;
	}
	return "0";
}
static std::string szVidOf(const DOMElement* e) {
	if (HAS_ATTR(e, X("vid"))) return ATTR(e, X("vid"));
	return "?";
}

class SzMonitor : public InterpreterMonitor {
public:
	SzRecorder* r;
	SzMonitor(SzRecorder* rec) : r(rec) {}
	void beforeProcessingEvent(const std::string&, const Event& event) { r->tok("EV:" + hex(event.name)); }
	void beforeMicroStep(const std::string&) { r->tok("MS{"); }
	void afterMicroStep(const std::string&) { r->tok("}MS"); }
	void beforeExitingState(const std::string&, const std::string&, const DOMElement* s) { r->tok("X{:" + szSidOf(s)); }
	void afterExitingState(const std::string&, const std::string&, const DOMElement* s) { r->tok("}X:" + szSidOf(s)); }
	void beforeEnteringState(const std::string&, const std::string&, const DOMElement* s) { r->tok("E{:" + szSidOf(s)); }
	void afterEnteringState(const std::string&, const std::string&, const DOMElement* s) { r->tok("}E:" + szSidOf(s)); }
	void beforeTakingTransition(const std::string&, const DOMElement* t) { r->tok("T{:" + szVidOf(t)); }
	void afterTakingTransition(const std::string&, const DOMElement* t) { r->tok("}T:" + szVidOf(t)); }
	void beforeExecutingContent(const std::string&, const DOMElement* e) { r->tok("C{:" + szVidOf(e)); }
	void afterExecutingContent(const std::string&, const DOMElement* e) { r->tok("}C:" + szVidOf(e)); }
	void beforeInvoking(const std::string&, const DOMElement* e, const std::string&) { r->tok("INV{:" + szVidOf(e)); }
	void afterInvoking(const std::string&, const DOMElement* e, const std::string&) { r->tok("}INV:" + szVidOf(e)); }
	void beforeUninvoking(const std::string&, const DOMElement* e, const std::string&) { r->tok("UNINV{:" + szVidOf(e)); }
	void afterUninvoking(const std::string&, const DOMElement* e, const std::string&) { r->tok("}UNINV:" + szVidOf(e)); }
	void onStableConfiguration(const std::string&) { r->tok("STABLE"); }
	void beforeCompletion(const std::string&) { r->tok("COMPL{"); }
	void afterCompletion(const std::string&) { r->tok("}COMPL"); }
};

// document mode (serialize-resume-doc): hand-written documents with values of any kind: the whole text of a <log>
// is recorded (hex), and the final value of every <data id> as JSON
static bool szDocMode = false;

class SzLogger : public LoggerImpl {
public:
	SzRecorder* r;
	SzLogger(SzRecorder* rec) : r(rec) {}
	std::shared_ptr<LoggerImpl> create() { return std::shared_ptr<LoggerImpl>(new SzLogger(r)); }
	void log(LogSeverity severity, const Event& event) {}
	void log(LogSeverity severity, const Data& data) {}
	void log(LogSeverity severity, const std::string& message) {
		if (severity != USCXML_LOG) return;
		std::string m = message;
		if (szDocMode) {
			while (m.size() && (m.back() == '\n' || m.back() == '\r')) m.pop_back();
			r->tok("LOG:" + hex(m));
			return;
		}
		while (m.size() && (m.back() == '\n' || m.back() == ' ' || m.back() == '"')) m.pop_back();
		size_t p = m.rfind(' ');
		if (p != std::string::npos) m = m.substr(p + 1);
		if (m.size() && m[0] == '"') m = m.substr(1);
		size_t dot = m.find('.');
		if (dot != std::string::npos && m.find_first_not_of('0', dot + 1) == std::string::npos) m = m.substr(0, dot);
		r->tok("LOG:" + m);
	}
};

static const char* szRcName(InterpreterState s) {
	switch (s) {
	case USCXML_FINISHED: return "FINISHED";
	case USCXML_INITIALIZED: return "INITIALIZED";
	case USCXML_MICROSTEPPED: return "MICROSTEPPED";
	case USCXML_MACROSTEPPED: return "MACROSTEPPED";
	case USCXML_IDLE: return "IDLE";
	case USCXML_CANCELLED: return "CANCELLED";
	case USCXML_INSTANTIATED: return "INSTANTIATED";
	default: return "UNDEF";
	}
}

static std::string szCfgTok(Interpreter& in) {
	std::string s = "CFG:";
	bool first = true;
	for (auto e : in.getConfiguration()) {
		if (!first) s += ",";
		s += szSidOf(e);
		first = false;
	}
	return s;
}

// every field of an event that Event.cpp writes into the state string, for the field-by-field comparison of the
// pending events of the original and of the resumed interpreter (implementation against itself)
static std::string szEventFields(const Event& e) {
	std::string s = hex(e.name) + "/" + std::to_string((int)e.eventType) + "/" + (e.hideSendId ? "h1" : "h0") + "/" +
	                hex(e.sendid) + "/" + hex(e.origintype) + "/" + hex(e.invokeid) + "/" + hex(Data(e.data).asJSON()) + "/";
	for (auto& n : e.namelist) s += hex(n.first) + "=" + hex(Data(n.second).asJSON()) + "+";
	s += "/";
	for (auto& q : e.params) s += hex(q.first) + "=" + hex(Data(q.second).asJSON()) + "+";
	return s;
}

// the external queue, unchanged, with a read-only view of its content
class PeekQueue : public BasicEventQueue {
public:
	std::shared_ptr<EventQueueImpl> create() { return std::shared_ptr<EventQueueImpl>(new PeekQueue()); }
	std::string names() {
		std::lock_guard<std::recursive_mutex> lock(_mutex);
		std::string s;
		for (auto& e : _queue) { if (s.size()) s += ","; s += hex(e.name); }
		return s.size() ? s : "-";
	}
	std::string full() {
		std::lock_guard<std::recursive_mutex> lock(_mutex);
		std::string s;
		for (auto& e : _queue) { if (s.size()) s += ","; s += szEventFields(e); }
		return s.size() ? s : "-";
	}
};

// between the delayed queue and the interpreter: counts the deliveries (InterpreterImpl::eventReady has returned,
// the event is in the external queue)
struct DeliverShim : public DelayedEventQueueCallbacks {
	DelayedEventQueueCallbacks* target;
	std::atomic<long> delivered;
	DeliverShim(DelayedEventQueueCallbacks* t) : target(t), delivered(0) {}
	void eventReady(Event& e, const std::string& id) { target->eventReady(e, id); delivered++; }
};

// the delayed queue, unchanged, with a read-only view of the timer map and `fire all pending now`
class PeekDelayQueue : public BasicDelayedEventQueue {
public:
	DeliverShim* shim;
	PeekDelayQueue(DeliverShim* cb) : BasicDelayedEventQueue(cb), shim(cb) {}
	std::shared_ptr<DelayedEventQueueImpl> create(DelayedEventQueueCallbacks* cb) {
		return std::shared_ptr<DelayedEventQueueImpl>(new PeekDelayQueue(new DeliverShim(cb)));
	}
	struct Pending { std::string uuid, name; timeval due; struct event* ev; };
	std::vector<Pending> pending() {
		std::lock_guard<std::recursive_mutex> lock(_mutex);
		std::vector<Pending> v;
		for (auto& kv : _callbackData) v.push_back({kv.first, kv.second.userData.name, kv.second.due, kv.second.event});
		std::sort(v.begin(), v.end(), [](const Pending& a, const Pending& b) {
			if (a.due.tv_sec != b.due.tv_sec) return a.due.tv_sec < b.due.tv_sec;
			if (a.due.tv_usec != b.due.tv_usec) return a.due.tv_usec < b.due.tv_usec;
			return a.uuid < b.uuid;
		});
		return v;
	}
	// name:remaining-seconds, in due order
	std::string view() {
		timeval now;
		evutil_gettimeofday(&now, NULL);
		std::string s;
		for (auto& p : pending()) {
			if (s.size()) s += ",";
			long rem = (long)(p.due.tv_sec - now.tv_sec);
			s += hex(p.name) + ":" + std::to_string(rem);
		}
		return s.size() ? s : "-";
	}
	std::string full() {
		std::vector<std::pair<std::string, std::string> > v;
		{
			std::lock_guard<std::recursive_mutex> lock(_mutex);
			for (auto& kv : _callbackData) v.push_back(std::make_pair(kv.first, szEventFields(kv.second.userData)));
		}
		std::sort(v.begin(), v.end());
		std::string s;
		for (auto& x : v) { if (s.size()) s += ","; s += hex(x.first) + "~" + x.second; }
		return s.size() ? s : "-";
	}
	// BasicDelayedEventQueue::serialize() and stop() lose their wake-up when the timer thread has not yet entered
	// event_base_loop() (C10: event_base_loopbreak() is forgotten at loop entry, join() then blocks for a year).
	// The race is C10's subject; here it is kept out of the way: wait until the loop has demonstrably run once.
	static void settleCb(evutil_socket_t, short, void* arg) { ((std::atomic<bool>*)arg)->store(true); }
	void settle() {
		std::atomic<bool> ran(false);
		struct event* ev = event_new(_eventLoop, -1, 0, settleCb, &ran);
		event_active(ev, EV_TIMEOUT, 0);
		auto dl = std::chrono::steady_clock::now() + std::chrono::milliseconds(2000);
		while (!ran.load() && std::chrono::steady_clock::now() < dl) std::this_thread::sleep_for(std::chrono::microseconds(50));
		event_free(ev);
		std::this_thread::sleep_for(std::chrono::microseconds(150));   // back into event_base_loop()
	}
	// make every pending timer due now, one after the other in due order, each time waiting until the event has
	// been delivered to the interpreter; false on timeout
	bool fireAll() {
		for (auto& p : pending()) {
			long before = shim->delivered.load();
			{
				std::lock_guard<std::recursive_mutex> lock(_mutex);
				if (_callbackData.find(p.uuid) == _callbackData.end()) continue;
				event_active(p.ev, EV_TIMEOUT, 0);
			}
			auto dl = std::chrono::steady_clock::now() + std::chrono::milliseconds(3000);
			while (shim->delivered.load() == before) {
				if (std::chrono::steady_clock::now() > dl) return false;
				std::this_thread::sleep_for(std::chrono::microseconds(200));
			}
		}
		return true;
	}
};

struct Machine {
	Interpreter* in;
	SzRecorder rec;
	SzMonitor* mon;
	PeekQueue* eq;
	PeekDelayQueue* dq;
	Machine(const std::string& xml, const std::string& engine) {
		in = new Interpreter(Interpreter::fromXML(xml, ""));
		ActionLanguage al;
		al.logger = Logger(std::shared_ptr<LoggerImpl>(new SzLogger(&rec)));
		al.microStepper = MicroStep(Factory::getInstance()->createMicroStepper(engine, (MicroStepCallbacks*)in->getImpl().get()));
		eq = new PeekQueue();
		al.externalQueue = EventQueue(std::shared_ptr<EventQueueImpl>(eq));
		dq = new PeekDelayQueue(new DeliverShim((DelayedEventQueueCallbacks*)in->getImpl().get()));
		al.delayQueue = DelayedEventQueue(std::shared_ptr<DelayedEventQueueImpl>(dq));
		in->setActionLanguage(al);
		mon = new SzMonitor(&rec);
		in->addMonitor(mon);
	}
	std::string queues() { return eq->names() + ";" + dq->view(); }
	std::string queuesFull() { return eq->full() + ";" + dq->full(); }
	void release() { vd_reap(in); in = NULL; }   // the monitor object stays allocated: the reaper may still call it
};

static bool isBoundary(InterpreterState s) {
	return s == USCXML_MACROSTEPPED || s == USCXML_IDLE || s == USCXML_FINISHED;
}

// drive the interpreter as `run` of vd_run.cpp does; stops after the k-th boundary when k >= 0.
// returns the last result of step()
static InterpreterState drive(Machine& m, int& fuel, const std::vector<std::string>& a, size_t& next, int k, int& nb,
                              bool& seenInit, bool& stopped) {
	InterpreterState s = USCXML_UNDEF;
	stopped = false;
	while (fuel > 0) {
		s = m.in->step(0);
		if (s == USCXML_INITIALIZED && !seenInit) { seenInit = true; continue; } // InterpreterImpl::init
		fuel--;
		m.rec.tok(std::string("RET:") + szRcName(s));
		m.rec.tok(szCfgTok(*m.in));
		if (isBoundary(s)) {
			if (k >= 0 && nb == k) { nb++; stopped = true; return s; }
			nb++;
		}
		if (s == USCXML_FINISHED) break;
		if (s == USCXML_IDLE) {
			if (next >= a.size()) break;
			std::string item = a[next++];
			if (item == "@t") {
				if (!m.dq->fireAll()) m.rec.tok("TICKTIMEOUT");
				m.rec.tok("TICK");
			} else {
				Event e(unhex(item));
				e.eventType = Event::EXTERNAL;
				m.in->receive(e);
			}
		}
	}
	return s;
}

// after a snapshot taken at IDLE the driver has not yet handed in the item that follows
static void feedAfterIdle(Machine& m, const std::vector<std::string>& a, size_t& next, bool& more) {
	more = true;
	if (next >= a.size()) { more = false; return; }
	std::string item = a[next++];
	if (item == "@t") {
		if (!m.dq->fireAll()) m.rec.tok("TICKTIMEOUT");
		m.rec.tok("TICK");
	} else {
		Event e(unhex(item));
		e.eventType = Event::EXTERNAL;
		m.in->receive(e);
	}
}

static std::string dataOf(Machine& m, const std::string& xml) {
	if (szDocMode) {
		// every <data id="...">: id=hex(JSON of evalAsData(id)), ERR when the evaluation throws
		std::string out;
		size_t p = 0;
		while ((p = xml.find("<data id=\"", p)) != std::string::npos) {
			p += 10;
			size_t q = xml.find('"', p);
			std::string id = xml.substr(p, q - p);
			try {
				Data d = m.in->getImpl()->evalAsData(id);
				std::string j = d.asJSON();
				for (auto& ch : j) if (ch == '\n' || ch == '\r') ch = ' ';
				out += " " + id + "=" + hex(j);
			} catch (...) {
				out += " " + id + "=ERR";
			}
		}
		return out.size() ? out : " -";
	}
	// the declared data ids are Var<n>
	std::vector<std::string> ids;
	size_t p = 0;
	while ((p = xml.find("<data id=\"Var", p)) != std::string::npos) {
		p += 13;
		size_t q = xml.find('"', p);
		std::string id = xml.substr(p, q - p);
		if (std::find(ids.begin(), ids.end(), id) == ids.end()) ids.push_back(id);
	}
	std::string out;
	for (auto& v : ids) {
		try {
			Data d = m.in->getImpl()->evalAsData("Var" + v);
			std::string s = d.atom;
			size_t dot = s.find('.');
			if (dot != std::string::npos && s.find_first_not_of('0', dot + 1) == std::string::npos) s = s.substr(0, dot);
			out += " " + v + "=" + (s.size() ? s : "EMPTY");
		} catch (...) {
			out += " " + v + "=ERR";
		}
	}
	return out.size() ? out : " -";
}

static std::string excText(const char* what) {
	std::string s = what ? what : "";
	return hex(s);
}

#define SZ_TRY(stmt, failtag, cleanup) \
	try { stmt; } \
	catch (ErrorEvent& e) { std::ostringstream ss; ss << e; out += std::string(" | ") + failtag + " " + hex(ss.str()); cleanup; return out; } \
	catch (std::exception& e) { out += std::string(" | ") + failtag + " " + excText(e.what()); cleanup; return out; } \
	catch (...) { out += std::string(" | ") + failtag + " " + hex("unknown exception"); cleanup; return out; }

// serialize-resume <engine> <hex scxml> <fuel> <k> <item>*
static std::string cmd_serialize_resume(const std::vector<std::string>& a) {
	if (a.size() < 5) return "ERR usage";
	szDocMode = (a[0] == "serialize-resume-doc");
	std::string engine = a[1];
	std::string xml = unhex(a[2]);
	int fuel = atoi(a[3].c_str());
	int k = atoi(a[4].c_str());
	Machine* o = new Machine(xml, engine);
	size_t next = 5;
	int nb = 0;
	bool seenInit = false, stopped = false;
	InterpreterState s = drive(*o, fuel, a, next, k, nb, seenInit, stopped);
	std::string out = "SR k=" + std::to_string(k) + " nb=" + std::to_string(nb) + " at=" + (stopped ? szRcName(s) : "NONE");
	out += " | PRE " + o->rec.take();
	if (!stopped) { o->release(); return out; }

	std::string snap;
	o->dq->settle();
	SZ_TRY(snap = o->in->serialize(), "SERFAIL", o->release());
	out += " | SNAP " + hex(snap);
	out += " | OQ " + o->queues();
	out += " | OQF " + o->queuesFull();

	// the original goes on
	int fuelO = fuel, fuelR = fuel;
	size_t nextO = next, nextR = next;
	int nbO = nb, nbR = nb;
	bool more = true, st2 = false;
	if (s == USCXML_IDLE) feedAfterIdle(*o, a, nextO, more);
	if (more && s != USCXML_FINISHED) drive(*o, fuelO, a, nextO, -1, nbO, seenInit, st2);
	else if (s == USCXML_FINISHED && fuelO > 0) {
		// a finished interpreter stays finished: one more step shows it
		InterpreterState s2 = o->in->step(0);
		o->rec.tok(std::string("RET:") + szRcName(s2));
		o->rec.tok(szCfgTok(*o->in));
	}
	out += " | ORIG " + o->rec.take();
	out += " | OD" + dataOf(*o, xml);
	o->release();

	// the fresh interpreter resumes
	Machine* r = new Machine(xml, engine);
	SZ_TRY(r->in->deserialize(snap), "DESERFAIL", r->release());
	out += " | RQ " + r->queues();
	out += " | RQF " + r->queuesFull();
	bool seenInitR = true;   // deserialize() has initialised the interpreter
	more = true;
	if (s == USCXML_IDLE) feedAfterIdle(*r, a, nextR, more);
	if (more && s != USCXML_FINISHED) drive(*r, fuelR, a, nextR, -1, nbR, seenInitR, st2);
	else if (s == USCXML_FINISHED && fuelR > 0) {
		InterpreterState s2 = r->in->step(0);
		r->rec.tok(std::string("RET:") + szRcName(s2));
		r->rec.tok(szCfgTok(*r->in));
	}
	out += " | RES " + r->rec.take();
	out += " | RD" + dataOf(*r, xml);
	r->release();
	return out;
}

// serialize-foreign <engine> <hex scxml A> <hex scxml B> <fuel> <k> <item>*
// the state string of A at its k-th boundary is given to a fresh interpreter of B; afterwards B is run on
// the items (all of them), and so is an untouched interpreter of B
static std::string cmd_serialize_foreign(const std::vector<std::string>& a) {
	if (a.size() < 6) return "ERR usage";
	szDocMode = false;
	std::string engine = a[1];
	std::string xmlA = unhex(a[2]), xmlB = unhex(a[3]);
	int fuel = atoi(a[4].c_str());
	int k = atoi(a[5].c_str());
	Machine* o = new Machine(xmlA, engine);
	size_t next = 6;
	int nb = 0;
	bool seenInit = false, stopped = false;
	int f = fuel;
	InterpreterState s = drive(*o, f, a, next, k, nb, seenInit, stopped);
	std::string out = "SF k=" + std::to_string(k) + " nb=" + std::to_string(nb) + " at=" + (stopped ? szRcName(s) : "NONE");
	if (!stopped) { o->release(); return out; }
	std::string snap;
	o->dq->settle();
	SZ_TRY(snap = o->in->serialize(), "SERFAIL", o->release());
	out += " | OQ " + o->queues();
	o->release();

	Machine* b = new Machine(xmlB, engine);
	std::string verdict = "ACCEPTED";
	std::string msg;
	try { b->in->deserialize(snap); }
	catch (ErrorEvent& e) { verdict = "REJECTED"; std::ostringstream ss; ss << e; msg = ss.str(); }
	catch (std::exception& e) { verdict = "REJECTED"; msg = e.what(); }
	catch (...) { verdict = "REJECTED"; msg = "unknown"; }
	out += " | " + verdict + " " + hex(msg.substr(0, 200));
	out += " | BQ " + b->queues();
	// B after the attempt
	{
		int fb = fuel, nbb = 0; size_t nx = 6; bool si = false, st = false;
		SZ_TRY(drive(*b, fb, a, nx, -1, nbb, si, st), "BFAIL", b->release());
		out += " | B " + b->rec.take();
		out += " | BD" + dataOf(*b, xmlB);
		b->release();
	}
	// an untouched B
	{
		Machine* u = new Machine(xmlB, engine);
		int fb = fuel, nbb = 0; size_t nx = 6; bool si = false, st = false;
		drive(*u, fb, a, nx, -1, nbb, si, st);
		out += " | U " + u->rec.take();
		out += " | UD" + dataOf(*u, xmlB);
		u->release();
	}
	return out;
}

} // namespace

VD_REGISTER(serialize_resume, cmd_serialize_resume)
static VdReg vd_reg_serialize_resume_dash("serialize-resume", cmd_serialize_resume);
static VdReg vd_reg_serialize_foreign_dash("serialize-foreign", cmd_serialize_foreign);
static VdReg vd_reg_serialize_resume_doc("serialize-resume-doc", cmd_serialize_resume);
