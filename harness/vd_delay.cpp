// vd_delay.cpp -- C09: implementation-side commands for delayed events (schedule replay, real-time runs,
// delay-string codec).
//
//   delay_parse <hex>
//        NumAttr + the unit dispatch of BasicContentExecutor::processSend, observed on the real path:
//        a one-transition chart executes <send delay="..."> and the harness' delayed queue records the delayMs
//        that reaches BasicDelayedEventQueue::enqueueDelayed (0 if the event was delivered at once).
//        answer: ms=<n> value=<hex> unit=<hex>
//   delay_replay <tickms> <prog> <steps> <watchdog_ms>
//        prog   as for the model driver:  S:<uuid>:<sid>:<tgt>:<delay ticks> | C:<sid> | A   (comma separated)
//        steps  the step tokens printed by the model driver for the schedule to force (comma separated, '-' = none);
//               after the last token everything runs freely until all operations returned and no timer is left,
//               or the watchdog expires.
//        A real Interpreter runs a generated chart (one transition per operation, <send>/<cancel> executed by
//        the interpreter thread when the director injects event op<k>; a delayed send is two steps, Is<k>:a up to
//        the point interp.enqueue.armed -- if the tree has it, answer field hook=1 -- and Isa:d); cancelAllDelayed (A) is called on the
//        interpreter's delayed queue from a helper thread.  Every controlled USCXML_VERIF_POINT blocks its thread
//        until the director grants it.
//        answer: res=ok|stuck|fail:<why> fault=none|uaf:<fn>|dfree:<fn> timing=ok|<why> at=<step index reached>
//                dev=-|<index of the step at which the interpreter thread took another path than the model: a <cancel>
//                returned where another entry was expected or vice versa; the rest of the run is then left free>
//                obs=<history, oldest first, times in microseconds since start>
//        (fail:<why> = the run did not realise the schedule: an expected arrival did not come; VD_DELAY_TRACE=1
//        in the environment prints the monitor and queue events to stderr)
//   delay_rt <tolerance_us> <spec>
//        spec: comma separated  S:<uuid>:<sid>:<tgt>:<delay text hex>:<expected ms> | C:<sid> | W:<ms> | Z:<ms>  executed in
//        order by the interpreter thread without any forced schedule (W = the director waits; Z = from now on the
//        delayed queue keeps its caller for <ms> after arming a timer, i.e. InterpreterImpl::enqueue stays between
//        arming and returning for that long).  answer as above.
//
// libevent is a system library (not instrumented).  To observe use-after-free / double free of timer objects
// exactly, event_new / event_free / event_del are interposed (pass-through unless a replay is active): the set
// of live timers is tracked; event_del or event_free on a timer that was already freed is reported as the
// outcome (and, in the ASan flavour, the freed object is read so that AddressSanitizer prints its own report).
#include "uscxml/config.h"
#include "uscxml/Interpreter.h"
#include "uscxml/interpreter/InterpreterImpl.h"
#include "uscxml/interpreter/InterpreterMonitor.h"
#include "uscxml/interpreter/BasicEventQueue.h"
#include "uscxml/interpreter/BasicDelayedEventQueue.h"
#include "uscxml/util/DOM.h"
#include "uscxml/util/VerifHooks.h"

#include <event2/event.h>
#include <dlfcn.h>
#include <unistd.h>

#include <thread>
#include <atomic>
#include <mutex>
#include <condition_variable>
#include <chrono>
#include <sstream>
#include <iostream>
#include <set>
#include <map>

#include "vd_common.h"

using namespace uscxml;

namespace vd_delay {

typedef std::chrono::steady_clock clk;

struct Ctl {
	std::mutex m;
	std::condition_variable cv;
	bool active = false;           // points are controlled
	bool tracking = false;         // timer objects are tracked
	std::map<std::string, int> arrivals;   // "role:point" -> number of arrivals
	std::map<std::string, int> consumed;   // director's view
	std::map<std::string, int> grants;     // role -> outstanding grants
	std::map<std::string, std::string> at; // role -> point it waits at
	std::set<void*> live;          // timer objects allocated and not freed
	std::set<void*> freed;         // timer objects freed (addresses may be reused: erased on event_new)
	std::string fault = "none";
	std::vector<std::string> obs;  // history
	std::map<int, bool> opdone;
	clk::time_point t0;
	std::string partial;           // result prefix for the fault path
	int step_at = 0;
	int cb_inflight = 0;
};
static Ctl& ctl() { static Ctl c; return c; }
static thread_local const char* tl_role = 0;
static thread_local int tl_nest = 0;

static long long now_us() {
	return std::chrono::duration_cast<std::chrono::microseconds>(clk::now() - ctl().t0).count();
}

static std::string join_obs() {
	std::string out;
	for (size_t i = 0; i < ctl().obs.size(); i++) { if (i) out += ","; out += ctl().obs[i]; }
	return out.size() ? out : "-";
}

// the result line of a run that ends in a detected memory fault
static void report_fault_and_exit(const std::string& what, void* obj) {
	Ctl& c = ctl();
	std::string line;
	{
		// called with c.m held by the caller
		c.fault = what;
		line = "res=fault fault=" + what + " timing=ok at=" + std::to_string(c.step_at) + " obs=" + join_obs();
	}
	std::cout << "@@" << line << std::endl;
	std::cout.flush();
#if defined(__SANITIZE_ADDRESS__)
	// let AddressSanitizer see the access libevent is about to make (libevent itself is not instrumented)
	volatile char x = *(volatile char*)obj;
	(void)x;
#endif
	_exit(0);
}

static bool controlled(const std::string& role, const std::string& p) {
	if (role == "I") return p == "interp.cancelDelayed.before" || p == "delay.cancel.before" || p == "delay.cancel.locked" ||
		                        p == "interp.enqueue.armed";
	if (role == "T") return p == "delay.callback.enter" || p == "delay.callback.unlocked" ||
		                        p == "interp.eventReady.locked" || p == "delay.callback.delivered";
	return false;
}

extern "C" void vd_delay_point(const char* name) {
	Ctl& c = ctl();
	std::unique_lock<std::mutex> lk(c.m);
	std::string p(name);
	if (c.tracking) {
		// callbacks between their entry and the return of eventReady (for the end-of-run quiescence test)
		if (p == "delay.callback.enter") c.cb_inflight++;
		else if (p == "delay.callback.delivered") c.cb_inflight--;
	}
	if (!c.active) return;
	std::string role = tl_role ? tl_role : "T";
	if (!controlled(role, p)) return;
	std::string key = role + ":" + p;
	c.arrivals[key]++;
	c.at[role] = p;
	c.cv.notify_all();
	while (c.active && c.grants[role] <= 0) c.cv.wait(lk);
	if (c.active) c.grants[role]--;
	c.at[role] = "";
	c.cv.notify_all();
}

// ---- queues handed to the interpreter: BasicDelayedEventQueue / BasicEventQueue with recording only ----
struct DQueue : public BasicDelayedEventQueue {
	std::mutex lm;
	std::map<std::string, std::string> uuidOf;   // event name -> uuid
	std::map<std::string, size_t> delayOf;       // event name -> delayMs
	bool recordOnly = false;                       // delay_parse: no timer is created
	// forced runs stretch timer callbacks to tens of milliseconds; libevent times a timer that is added while a
	// callback runs from its cached clock (the moment the loop woke up for that callback), so such a timer would
	// be due early by the time the harness held the callback.  In forced runs the cache is refreshed before a send.
	bool refreshCache = false;
	// real-time runs: keep the caller inside enqueueDelayed for this long after the timer was armed (the window in
	// which InterpreterImpl::enqueue has armed the timer but not yet returned), so that a short timer fires in it
	int sleepAfterArmMs = 0;
	DQueue(DelayedEventQueueCallbacks* cb) : BasicDelayedEventQueue(cb) {}
	virtual void enqueueDelayed(const Event& event, size_t delayMs, const std::string& eventUUID) {
		{
			std::lock_guard<std::mutex> l(lm);
			uuidOf[event.name] = eventUUID;
			delayOf[event.name] = delayMs;
		}
		if (recordOnly) return;
		if (refreshCache) event_base_update_cache_time(_eventLoop);
		BasicDelayedEventQueue::enqueueDelayed(event, delayMs, eventUUID);
		if (sleepAfterArmMs > 0) std::this_thread::sleep_for(std::chrono::milliseconds(sleepAfterArmMs));
	}
	// non-blocking look at _callbackData (the director must not wait for a mutex a dead-locked thread holds)
	int hasEntry(const std::string& uuid) {
		std::unique_lock<std::recursive_mutex> l(_mutex, std::try_to_lock);
		if (!l.owns_lock()) return -1;
		return _callbackData.find(uuid) != _callbackData.end() ? 1 : 0;
	}
	int entries() {
		std::unique_lock<std::recursive_mutex> l(_mutex, std::try_to_lock);
		if (!l.owns_lock()) return -1;
		return (int)_callbackData.size();
	}
};

struct TQueue : public BasicEventQueue {
	int tgt;
	TQueue(int t) : tgt(t) {}
	virtual void enqueue(const Event& event) {
		if (getenv("VD_DELAY_TRACE")) fprintf(stderr, "[%lld] enqueue %s on queue %d by %s\n", now_us(), event.name.c_str(), tgt, tl_role ? tl_role : "T");
		if (event.name.size() > 2 && event.name.substr(0, 2) == "ev") {
			Ctl& c = ctl();
			std::lock_guard<std::mutex> l(c.m);
			// d:<u>:<t>:<tgt>:<by timer thread>
			c.obs.push_back("d:" + event.name.substr(2) + ":" + std::to_string(now_us()) + ":" + std::to_string(tgt) +
			                ":" + ((tl_role && std::string(tl_role) == "I") ? "0" : "1"));
		}
		BasicEventQueue::enqueue(event);
	}
};

struct Op {
	char kind;            // S C A W
	int u = 0, sid = 0, tgt = 0;
	long long delay = 0;  // ticks (replay) or expected ms (rt)
	std::string text;     // delay attribute
};

struct Mon : public InterpreterMonitor {
	std::vector<Op>* ops;
	long long tickus = 0;
	int cur = -1;
	virtual void beforeProcessingEvent(const std::string&, const Event& event) {
		if (event.name.size() > 2 && event.name.substr(0, 2) == "op") cur = atoi(event.name.c_str() + 2);
		else cur = -1;
		if (getenv("VD_DELAY_TRACE")) fprintf(stderr, "[%lld] processing %s type=%d\n", now_us(), event.name.c_str(), (int)event.eventType);
	}
	virtual void beforeTakingTransition(const std::string&, const XERCESC_NS::DOMElement* t) {
		if (getenv("VD_DELAY_TRACE")) fprintf(stderr, "[%lld] transition on %s\n", now_us(), HAS_ATTR(t, X("event")) ? ATTR(t, X("event")).c_str() : "-");
	}
	virtual void beforeExecutingContent(const std::string&, const XERCESC_NS::DOMElement* e) {
		std::string tag = LOCALNAME(e);
		if (tag == "send" && cur >= 0) {
			Op& o = (*ops)[cur];
			Ctl& c = ctl();
			std::lock_guard<std::mutex> l(c.m);
			long long dus = tickus ? o.delay * tickus : o.delay * 1000;
			c.obs.push_back("s:" + std::to_string(o.u) + ":" + std::to_string(o.sid) + ":" + std::to_string(o.tgt) + ":" +
			                std::to_string(now_us()) + ":" + std::to_string(dus));
		}
	}
	virtual void afterExecutingContent(const std::string&, const XERCESC_NS::DOMElement* e) {
		std::string tag = LOCALNAME(e);
		if ((tag == "send" || tag == "cancel") && cur >= 0) {
			Ctl& c = ctl();
			std::lock_guard<std::mutex> l(c.m);
			if (tag == "cancel") c.obs.push_back("c:" + std::to_string((*ops)[cur].sid) + ":" + std::to_string(now_us()));
			c.opdone[cur] = true;
			c.cv.notify_all();
		}
	}
};

static std::vector<std::string> splitc(const std::string& s, char sep) {
	std::vector<std::string> out;
	std::istringstream iss(s);
	std::string t;
	while (std::getline(iss, t, sep)) out.push_back(t);
	return out;
}

static std::string xml_escape(const std::string& s) {
	std::string o;
	for (unsigned char ch : s) {
		if (ch == '&') o += "&amp;";
		else if (ch == '<') o += "&lt;";
		else if (ch == '"') o += "&quot;";
		else if (ch == '\t') o += "&#9;";
		else o.push_back((char)ch);
	}
	return o;
}

static std::string chart_of(const std::vector<Op>& ops) {
	std::ostringstream x;
	x << "<scxml xmlns=\"http://www.w3.org/2005/07/scxml\" version=\"1.0\" datamodel=\"null\" initial=\"s\"><state id=\"s\">";
	for (size_t k = 0; k < ops.size(); k++) {
		const Op& o = ops[k];
		if (o.kind == 'S') {
			x << "<transition event=\"op" << k << "\"><send event=\"ev" << o.u << "\" id=\"sid" << o.sid << "\"";
			if (o.text.size()) x << " delay=\"" << xml_escape(o.text) << "\"";
			if (o.tgt == 1) x << " target=\"#_internal\"";
			x << "/></transition>";
		} else if (o.kind == 'C') {
			x << "<transition event=\"op" << k << "\"><cancel sendid=\"sid" << o.sid << "\"/></transition>";
		}
	}
	x << "</state></scxml>";
	return x.str();
}

struct Setup {
	Interpreter interp;
	Mon mon;
	DQueue* dq = 0;
	std::vector<Op> ops;
	std::thread stepper;
	std::atomic<bool> stop;
	Setup() : stop(false) {}
	void start(long long tickus) {
		interp = Interpreter::fromXML(chart_of(ops), "");
		ActionLanguage al;
		dq = new DQueue(interp.getImpl().get());
		al.delayQueue = DelayedEventQueue(std::shared_ptr<DelayedEventQueueImpl>(dq));
		al.externalQueue = EventQueue(std::shared_ptr<EventQueueImpl>(new TQueue(0)));
		al.internalQueue = EventQueue(std::shared_ptr<EventQueueImpl>(new TQueue(1)));
		interp.setActionLanguage(al);
		mon.ops = &ops;
		mon.tickus = tickus;
		interp.addMonitor(&mon);
		for (int i = 0; i < 64; i++) {
			InterpreterState st = interp.step(0);
			if (st == USCXML_IDLE || st == USCXML_FINISHED) break;
		}
		stepper = std::thread([this]() {
			tl_role = "I";
			while (!stop) {
				InterpreterState r = interp.step(std::numeric_limits<size_t>::max());
				if (r == USCXML_FINISHED) break;
			}
		});
	}
};

// director helpers (all under c.m)
static bool wait_arrival(std::unique_lock<std::mutex>& lk, const std::string& key, int timeout_ms) {
	Ctl& c = ctl();
	bool ok = c.cv.wait_for(lk, std::chrono::milliseconds(timeout_ms), [&]() { return c.arrivals[key] > c.consumed[key]; });
	if (ok) c.consumed[key]++;
	return ok;
}
static bool wait_done(std::unique_lock<std::mutex>& lk, int k, int timeout_ms) {
	Ctl& c = ctl();
	return c.cv.wait_for(lk, std::chrono::milliseconds(timeout_ms), [&]() { return c.opdone[k]; });
}
// the interpreter thread is expected at `key`; 1 = it arrived, 2 = operation k returned instead (the code took another
// path than the model: a deviation, the rest of the run is left free), 0 = neither in time
static int wait_arrival_or_done(std::unique_lock<std::mutex>& lk, const std::string& key, int k, int timeout_ms) {
	Ctl& c = ctl();
	bool ok = c.cv.wait_for(lk, std::chrono::milliseconds(timeout_ms), [&]() { return c.arrivals[key] > c.consumed[key] || c.opdone[k]; });
	if (!ok) return 0;
	if (c.arrivals[key] > c.consumed[key]) { c.consumed[key]++; return 1; }
	return 2;
}
// operation k is expected to return; 1 = it did, 2 = the thread arrived at another cancel point instead, 0 = neither
static int wait_done_or_arrival(std::unique_lock<std::mutex>& lk, int k, int timeout_ms) {
	Ctl& c = ctl();
	const std::string key = "I:delay.cancel.before";
	bool ok = c.cv.wait_for(lk, std::chrono::milliseconds(timeout_ms), [&]() { return c.opdone[k] || c.arrivals[key] > c.consumed[key]; });
	if (!ok) return 0;
	return c.opdone[k] ? 1 : 2;
}
static void grant(const std::string& role) {
	Ctl& c = ctl();
	c.grants[role]++;
	c.cv.notify_all();
}

static std::string run_replay(long long tickms, const std::string& progs, const std::string& stepss, int watchdog_ms, bool rt, long long tol_us) {
	Ctl& c = ctl();
	Setup* S = new Setup();   // never destroyed: the process exits after the answer
	for (auto& it : splitc(progs, ',')) {
		std::vector<std::string> f = splitc(it, ':');
		Op o;
		o.kind = f[0][0];
		if (o.kind == 'S') {
			o.u = atoi(f[1].c_str()); o.sid = atoi(f[2].c_str()); o.tgt = atoi(f[3].c_str());
			if (rt) { o.text = unhex(f[4]); o.delay = atoll(f[5].c_str()); }
			else { o.delay = atoll(f[4].c_str()); if (o.delay) o.text = std::to_string(o.delay * tickms) + "ms"; }
		} else if (o.kind == 'C') o.sid = atoi(f[1].c_str());
		else if (o.kind == 'W' || o.kind == 'Z') o.delay = atoll(f[1].c_str());
		S->ops.push_back(o);
	}
	c.t0 = clk::now();
	S->start(rt ? 0 : tickms * 1000);
	S->dq->refreshCache = !rt;
	std::vector<std::string> steps;
	if (stepss != "-") steps = splitc(stepss, ',');

	std::string res = "ok";
	std::string timing = "ok";
	const int ARR = (int)(tickms * 3 + 400);   // time allowed for an expected arrival / completion
	const int SETTLE = 6;
	std::vector<std::thread*> helpers;
	{
		std::unique_lock<std::mutex> lk(c.m);
		c.tracking = true;
		c.active = !rt;
		uscxml_verif_point = vd_delay_point;
	}
	clk::time_point tick0 = clk::now();
	long long tickno = 0;
	size_t nextop = 0;
	bool pendI = false, pendT = false;
	int hook = -1;              // 1: interp.enqueue.armed was reached, 0: a delayed send returned without it
	bool nohook_send = false;
	std::map<int, bool> started;
	auto inject = [&](int k) {
		S->interp.receive(Event("op" + std::to_string(k), Event::EXTERNAL));
	};
	auto fail = [&](const std::string& why) { if (res == "ok") res = "fail:" + why; };
	auto check_early = [&]() {
		// a callback that already entered although the model has not scheduled its expiry yet: the run is not the
		// schedule that was asked for
		if (c.arrivals["T:delay.callback.enter"] > c.consumed["T:delay.callback.enter"]) timing = "expiry-before-its-step";
	};
	auto start_cancel_all = [&](int k) {
		helpers.push_back(new std::thread([S, k]() {
			tl_role = "X";
			S->dq->cancelAllDelayed();
			Ctl& c = ctl();
			std::lock_guard<std::mutex> l(c.m);
			c.opdone[k] = true;
			c.cv.notify_all();
		}));
	};

	if (rt) {
		// free running: operations in order, each waited for
		for (size_t k = 0; k < S->ops.size(); k++) {
			if (S->ops[k].kind == 'W') { std::this_thread::sleep_for(std::chrono::milliseconds(S->ops[k].delay)); continue; }
			if (S->ops[k].kind == 'Z') {
				// (the sleep stretches a concurrently running callback as a forced schedule does: see refreshCache)
				S->dq->sleepAfterArmMs = (int)S->ops[k].delay; S->dq->refreshCache = true; continue;
			}
			if (S->ops[k].kind == 'A') { start_cancel_all(k); }
			else inject(k);
			std::unique_lock<std::mutex> lk(c.m);
			if (!wait_done(lk, k, watchdog_ms)) { res = "stuck"; break; }
		}
		nextop = S->ops.size();
	}

	int dev = -1;   // index of the step at which the code left the path the model predicts
	for (size_t i = 0; i < steps.size() && res == "ok" && dev < 0; i++) {
		const std::string& tk = steps[i];
		{
			std::lock_guard<std::mutex> l(c.m);
			c.step_at = (int)i;
		}
		std::string head = tk.substr(0, tk.find(':'));
		std::string post = tk.find(':') == std::string::npos ? "" : tk.substr(tk.find(':') + 1);
		if (tk == "C") {
			tickno++;
			std::this_thread::sleep_until(tick0 + std::chrono::milliseconds(tickno * tickms));
			continue;
		}
		if (tk == "I-" || tk == "T-" || tk == "T?") continue;
		std::unique_lock<std::mutex> lk(c.m);
		// a step whose thread was already released at this point by an earlier blocked step is not released again
		bool& pend = (head[0] == 'I') ? pendI : pendT;
		const std::string role(1, head[0]);
		bool ok = true;
		std::string why;
		if (head[0] == 'I') {
			check_early();
			if ((head[1] == 's' || head[1] == 'c' || head[1] == 'a') && head.substr(0, 3) != "Ial" && head.substr(0, 3) != "Isa") {
				int k = atoi(head.c_str() + 2);
				nextop = k + 1;
				if (!started[k]) {
					started[k] = true;
					long long late = std::chrono::duration_cast<std::chrono::microseconds>(clk::now() - (tick0 + std::chrono::milliseconds(tickno * tickms))).count();
					if (head[1] == 's' && late > tickms * 500) timing = "send-late-in-tick";
					lk.unlock();
					if (head[1] == 'a') start_cancel_all(k); else inject(k);
					lk.lock();
					if (head[1] == 'c') {
						if (!wait_arrival(lk, "I:interp.cancelDelayed.before", ARR)) { fail("no-arrival-cancelDelayed.before"); break; }
						grant("I");
					}
				}
				if (post == "d") {
					int w = (head[1] == 'c') ? wait_done_or_arrival(lk, k, ARR) : (wait_done(lk, k, ARR) ? 1 : 0);
					ok = w != 0; why = "op-not-done"; if (w == 2) dev = (int)i;
				}
				else if (post == "q") {
					int w = wait_arrival_or_done(lk, "I:delay.cancel.before", k, ARR);
					ok = w != 0; why = "no-arrival-delay.cancel.before"; if (w == 2) dev = (int)i;
				}
				else if (post == "a") {
					// a delayed send: the thread parks at interp.enqueue.armed (timer armed, enqueue not yet returned) --
					// if the tree has that point; otherwise the send simply returns and cannot be parked
					int w = wait_arrival_or_done(lk, "I:interp.enqueue.armed", k, ARR);
					ok = w != 0; why = "send-neither-armed-nor-done";
					if (w == 1) hook = 1;
					if (w == 2) {
						if (hook != 1) hook = 0;
						nohook_send = true;
						if (i + 1 < steps.size() && steps[i + 1].substr(0, 3) != "Isa") timing = "no-armed-hook";
					}
				}
				else if (post == "l") {
					// cancelAllDelayed has no point after taking _mutex: wait until the helper holds it (or is done)
					lk.unlock();
					auto dl = clk::now() + std::chrono::milliseconds(ARR);
					while (clk::now() < dl) {
						if (S->dq->entries() < 0) break;
						{
							std::lock_guard<std::mutex> l2(c.m);
							if (c.opdone[k]) break;
						}
						std::this_thread::sleep_for(std::chrono::microseconds(50));
					}
					lk.lock();
				}
				else if (post == "f") { c.cv.wait_for(lk, std::chrono::milliseconds(ARR), []() { return false; }); ok = false; why = "fault-expected-none-seen"; }
				else c.cv.wait_for(lk, std::chrono::milliseconds(SETTLE), []() { return false; });
			} else {
				int k = (int)nextop - 1;
				bool isall = head.substr(0, 3) == "Ial";
				bool isarmed = head.substr(0, 3) == "Isa";
				if (isarmed && nohook_send) { isall = true; if (post != "b") nohook_send = false; }   // nothing is parked: only wait
				if (!pend && !isall) grant("I");
				if (post == "l") { ok = wait_arrival(lk, "I:delay.cancel.locked", ARR); why = "no-arrival-delay.cancel.locked"; }
				else if (post == "q") {
					int w = wait_arrival_or_done(lk, "I:delay.cancel.before", k, ARR);
					ok = w != 0; why = "no-arrival-delay.cancel.before"; if (w == 2) dev = (int)i;
				}
				else if (post == "d") {
					int w = isall ? (wait_done(lk, k, ARR) ? 1 : 0) : wait_done_or_arrival(lk, k, ARR);
					ok = w != 0; why = "op-not-done"; if (w == 2) dev = (int)i;
				}
				else if (post == "f") { c.cv.wait_for(lk, std::chrono::milliseconds(ARR), []() { return false; }); ok = false; why = "fault-expected-none-seen"; }
				else c.cv.wait_for(lk, std::chrono::milliseconds(SETTLE), []() { return false; });
			}
		} else if (head[0] == 'T') {
			if (head[1] == 'e') {
				ok = wait_arrival(lk, "T:delay.callback.enter", ARR); why = "no-expiry";
				post = "n";
			} else {
				int u = atoi(head.c_str() + 3);
				std::string h3 = head.substr(0, 3);
				if (!pend) grant("T");
				if (post == "f") { c.cv.wait_for(lk, std::chrono::milliseconds(ARR), []() { return false; }); ok = false; why = "fault-expected-none-seen"; }
				else if (post == "b") c.cv.wait_for(lk, std::chrono::milliseconds(SETTLE), []() { return false; });
				else if (h3 == "Tce" && post == "n") { ok = wait_arrival(lk, "T:delay.callback.unlocked", ARR); why = "no-arrival-callback.unlocked"; }
				else if (h3 == "Tcu") { ok = wait_arrival(lk, "T:interp.eventReady.locked", ARR); why = "no-arrival-eventReady.locked"; }
				else if (h3 == "Trl") { ok = wait_arrival(lk, "T:delay.callback.delivered", ARR); why = "no-arrival-callback.delivered"; }
				else if (h3 == "Tdl" || (h3 == "Tce" && post == "r")) {
					// the end of the callback has no point: wait until section 3 has erased the entry
					std::string uuid;
					{
						std::lock_guard<std::mutex> l(S->dq->lm);
						uuid = S->dq->uuidOf["ev" + std::to_string(u)];
					}
					lk.unlock();
					auto dl = clk::now() + std::chrono::milliseconds(ARR);
					while (clk::now() < dl) {
						int h = S->dq->hasEntry(uuid);
						if (h == 0) break;
						std::this_thread::sleep_for(std::chrono::microseconds(100));
					}
					std::this_thread::sleep_for(std::chrono::microseconds(500));   // return into libevent
					lk.lock();
				}
			}
		}
		pend = (post == "b");
		if (!ok) fail(why);
	}

	// free phase: remaining operations, then wait for quiescence
	{
		std::unique_lock<std::mutex> lk(c.m);
		c.step_at = (int)steps.size();
		c.active = false;
		c.cv.notify_all();
	}
	if (res == "ok") {
		auto deadline = clk::now() + std::chrono::milliseconds(watchdog_ms);
		for (size_t k = nextop; k < S->ops.size() && res == "ok"; k++) {
			if (S->ops[k].kind == 'W' || S->ops[k].kind == 'Z') continue;
			if (S->ops[k].kind == 'A') start_cancel_all(k); else inject(k);
			std::unique_lock<std::mutex> lk(c.m);
			if (!c.cv.wait_until(lk, deadline, [&]() { return c.opdone[k]; })) res = "stuck";
		}
		// all operations injected so far must return, all timers must be gone
		clk::time_point quiet_since;
		while (res == "ok") {
			bool alldone = true;
			{
				std::unique_lock<std::mutex> lk(c.m);
				for (size_t k = 0; k < nextop && k < S->ops.size(); k++)
					if (S->ops[k].kind != 'W' && S->ops[k].kind != 'Z' && !c.opdone[k]) alldone = false;
			}
			int n = S->dq->entries();
			if (alldone && n == 0) {
				// a callback that has taken its entry but not yet delivered (it waits for _delayMutex, or the thread
				// has not been scheduled yet) still belongs to the run; give up on it after 300 ms
				int inflight;
				{
					std::unique_lock<std::mutex> lk(c.m);
					inflight = c.cb_inflight;
				}
				if (inflight <= 0) break;
				if (quiet_since == clk::time_point()) quiet_since = clk::now();
				if (clk::now() - quiet_since > std::chrono::milliseconds(300)) break;
			} else quiet_since = clk::time_point();
			if (clk::now() > deadline) { res = "stuck"; break; }
			std::this_thread::sleep_for(std::chrono::microseconds(300));
		}
		if (res == "ok") std::this_thread::sleep_for(std::chrono::milliseconds(3));
	}
	std::string out;
	{
		std::unique_lock<std::mutex> lk(c.m);
		c.tracking = false;
		out = "res=" + res + " fault=" + c.fault + " timing=" + timing + " at=" + std::to_string(c.step_at) +
		      " dev=" + (dev < 0 ? std::string("-") : std::to_string(dev)) +
		      " hook=" + (hook < 0 ? std::string("-") : std::to_string(hook)) + " obs=" + join_obs();
	}
	(void)tol_us;
	std::cout << "@@" << out << std::endl;
	std::cout.flush();
	_exit(0);
	return out;
}

static std::string cmd_replay(const std::vector<std::string>& a) {
	if (a.size() != 5) return "ERR usage";
	return run_replay(atoll(a[1].c_str()), a[2], a[3], atoi(a[4].c_str()), false, 0);
}
static std::string cmd_rt(const std::vector<std::string>& a) {
	if (a.size() != 3) return "ERR usage";
	return run_replay(1, a[2], "-", 20000, true, atoll(a[1].c_str()));
}

// the codec on the real path: what delayMs reaches the delayed queue
static std::string cmd_parse(const std::vector<std::string>& a) {
	if (a.size() != 2) return "ERR usage";
	std::string text = unhex(a[1]);
	NumAttr na(text);
	Setup S;
	Op o; o.kind = 'S'; o.u = 1; o.sid = 1; o.tgt = 0; o.text = text;
	S.ops.push_back(o);
	ctl().t0 = clk::now();
	S.interp = Interpreter::fromXML(chart_of(S.ops), "");
	ActionLanguage al;
	S.dq = new DQueue(S.interp.getImpl().get());
	S.dq->recordOnly = true;   // (a timer that fires while the queue is being torn down would run into the C09 race)
	al.delayQueue = DelayedEventQueue(std::shared_ptr<DelayedEventQueueImpl>(S.dq));
	S.interp.setActionLanguage(al);
	for (int i = 0; i < 64; i++) {
		InterpreterState st = S.interp.step(0);
		if (st == USCXML_IDLE || st == USCXML_FINISHED) break;
	}
	S.interp.receive(Event("op0", Event::EXTERNAL));
	for (int i = 0; i < 8; i++) S.interp.step(0);
	size_t ms = 0;
	{
		std::lock_guard<std::mutex> l(S.dq->lm);
		if (S.dq->delayOf.count("ev1")) ms = S.dq->delayOf["ev1"];
	}
 	return "ms=" + std::to_string(ms) + " value=" + hex(na.value) + " unit=" + hex(na.unit);
}

VD_REGISTER(delay_replay, cmd_replay)
VD_REGISTER(delay_rt, cmd_rt)
VD_REGISTER(delay_parse, cmd_parse)

} // namespace vd_delay

// ---- interposition of libevent's timer object life cycle (pass-through unless a replay tracks) ----
extern "C" {

typedef struct event* (*event_new_t)(struct event_base*, evutil_socket_t, short, event_callback_fn, void*);
typedef void (*event_free_t)(struct event*);
typedef int (*event_del_t)(struct event*);

struct event* event_new(struct event_base* b, evutil_socket_t fd, short what, event_callback_fn cb, void* arg) {
	static event_new_t real = (event_new_t)dlsym(RTLD_NEXT, "event_new");
	struct event* e = real(b, fd, what, cb, arg);
	vd_delay::Ctl& c = vd_delay::ctl();
	if (c.tracking && vd_delay::tl_nest == 0) {
		std::lock_guard<std::mutex> l(c.m);
		c.freed.erase(e);
		c.live.insert(e);
	}
	return e;
}

void event_free(struct event* e) {
	static event_free_t real = (event_free_t)dlsym(RTLD_NEXT, "event_free");
	vd_delay::Ctl& c = vd_delay::ctl();
	if (c.tracking && vd_delay::tl_nest == 0) {
		std::unique_lock<std::mutex> l(c.m);
		if (c.freed.count(e)) vd_delay::report_fault_and_exit("dfree:event_free", e);
		if (c.live.count(e)) { c.live.erase(e); c.freed.insert(e); }
	}
	vd_delay::tl_nest++;
	real(e);
	vd_delay::tl_nest--;
}

int event_del(struct event* e) {
	static event_del_t real = (event_del_t)dlsym(RTLD_NEXT, "event_del");
	vd_delay::Ctl& c = vd_delay::ctl();
	if (c.tracking && vd_delay::tl_nest == 0) {
		std::unique_lock<std::mutex> l(c.m);
		if (c.freed.count(e)) vd_delay::report_fault_and_exit("uaf:event_del", e);
	}
	vd_delay::tl_nest++;
	int r = real(e);
	vd_delay::tl_nest--;
	return r;
}

}
