// vd_tables.cpp -- C05: the structural tables the transpiler back-ends compute and embed.
//   tables <c|pml|vhdl> <hex scxml>
// runs ChartTo{C,Promela,VHDL}::transform on the document (in process), prints
//   ann  : every annotation ChartToC::prepare left on the DOM (states in DOM document order, transitions by postFixOrder)
//   out  : the tables as they appear in the emitted text (C: initialisers and bit-string comments; Promela: the
//          assignments of the init block; VHDL: the index sets of the equations)
#include "uscxml/config.h"
#include "uscxml/Common.h"
#include "uscxml/Interpreter.h"
#include "uscxml/util/DOM.h"
#include "uscxml/util/String.h"
#include "uscxml/util/Predicates.h"
#include "uscxml/transform/ChartToC.h"
#include "uscxml/transform/ChartToPromela.h"
#include "uscxml/transform/ChartToVHDL.h"

#include <sstream>
#include <map>
#include <set>
#include <algorithm>
#include "vd_common.h"

using namespace uscxml;
using namespace XERCESC_NS;

namespace {

std::string attr(const DOMElement* e, const char* name, const std::string& dflt = "-") {
	if (!e->hasAttribute(X(name))) return dflt;
	std::string v = X(e->getAttribute(X(name))).str();
	return v.empty() ? dflt : v;
}

std::string sidOf(const DOMElement* e, const std::string& tag) {
	if (tag == "scxml") return "0";
	std::string id = attr(e, "id", "");
	if (id.size() > 1 && id[0] == 's') return id.substr(1);
	return "-";
}

bool isStateTag(const std::string& t) {
	return t == "scxml" || t == "state" || t == "parallel" || t == "final" || t == "history" || t == "initial";
}

struct Ann {
	std::vector<std::string> states;
	std::map<long, std::string> trans; // by postFixOrder
	size_t ntrans = 0;
};

void walk(const DOMElement* e, Ann& a, bool top) {
	std::string tag = X(e->getLocalName()).str();
	if (!top && tag == "scxml") return; // embedded document
	if (isStateTag(tag)) {
		std::string kind = tag;
		if (tag == "history") kind = (iequals(attr(e, "type", "shallow"), "deep") ? "hd" : "hs");
		a.states.push_back("S:" + kind + ":" + sidOf(e, tag) + ":" + attr(e, "parent") + ":" + attr(e, "childBools") + ":" +
		                   attr(e, "ancBools") + ":" + attr(e, "completionBools") + ":" + (e->hasAttribute(X("hasHistoryChild")) ? "1" : "0") +
		                   ":" + attr(e, "documentOrder"));
	} else if (tag == "transition") {
		std::string pf = attr(e, "postFixOrder");
		std::string s = "T:" + attr(e, "vid") + ":" + attr(e, "documentOrder") + ":" + attr(e, "source") + ":" + pf + ":" +
		                attr(e, "targetBools") + ":" + attr(e, "exitSetBools") + ":" + attr(e, "conflictBools");
		long k = (pf == "-" ? 1000000 + (long)a.ntrans : atol(pf.c_str()));
		while (a.trans.count(k)) k += 2000000; // duplicate postFixOrder: keep both
		a.trans[k] = s;
		a.ntrans++;
	}
	for (DOMElement* c = e->getFirstElementChild(); c; c = c->getNextElementSibling()) walk(c, a, false);
}

std::vector<std::string> lines(const std::string& text) {
	std::vector<std::string> out;
	std::string cur;
	for (char ch : text) {
		if (ch == '\n') { out.push_back(cur); cur.clear(); }
		else if (ch != '\r') cur.push_back(ch);
	}
	if (!cur.empty()) out.push_back(cur);
	return out;
}

std::string trim(const std::string& s) {
	size_t b = s.find_first_not_of(" \t"), e = s.find_last_not_of(" \t");
	if (b == std::string::npos) return "";
	return s.substr(b, e - b + 1);
}

// "{ 0x82, 0x01 /* 0100.. */ }," -> "8201/0100.."   ;  "{ 0x00 }" -> "00/-"
std::string cInit(const std::string& rest) {
	std::string hexs, bits = "-";
	size_t c = rest.find("/*");
	std::string init = (c == std::string::npos ? rest : rest.substr(0, c));
	for (size_t i = 0; i + 3 < init.size() + 1; i++) {
		if (init.compare(i, 2, "0x") == 0 && i + 3 < init.size() + 1) { hexs += init.substr(i + 2, 2); i += 3; }
	}
	if (c != std::string::npos) {
		size_t e = rest.find("*/", c);
		bits = trim(rest.substr(c + 2, e == std::string::npos ? std::string::npos : e - c - 2));
		if (bits.empty()) bits = "-";
	}
	return (hexs.empty() ? "-" : hexs) + "/" + bits;
}

std::string squeeze(std::string s) { // type expression without blanks and trailing comma
	std::string o;
	for (char ch : s) if (ch != ' ' && ch != '\t' && ch != ',') o.push_back(ch);
	return o.empty() ? "-" : o;
}

std::string parseC(const std::string& text) {
	std::ostringstream o;
	std::string mode; // "S" or "T"
	std::map<std::string, std::string> cur;
	auto flush = [&]() {
		if (mode == "S")
			o << " CS:" << cur["n"] << ":" << cur["parent"] << ":" << cur["children"] << ":" << cur["completion"] << ":" << cur["ancestors"] << ":" << cur["type"];
		else if (mode == "T")
			o << " CT:" << cur["n"] << ":" << cur["doc"] << ":" << cur["source"] << ":" << cur["target"] << ":" << cur["conflicts"] << ":" << cur["exit set"] << ":" << cur["type"];
		cur.clear();
		mode = "";
	};
	for (const std::string& raw : lines(text)) {
		std::string l = trim(raw);
		size_t p;
		if ((p = l.find("/* state number ")) != std::string::npos) {
			flush(); mode = "S"; cur["n"] = trim(l.substr(p + 16, l.find("*/", p) - p - 16)); continue;
		}
		if ((p = l.find("/* transition number ")) != std::string::npos) {
			flush(); mode = "T";
			std::istringstream is(l.substr(p + 21));
			std::string d, w, pr, prio;
			is >> d >> w >> pr >> prio;
			cur["doc"] = d; cur["n"] = prio; continue;
		}
		if (mode.empty()) continue;
		if (l == "};") { flush(); continue; }
		if (l.compare(0, 2, "/*") != 0) continue;
		size_t e = l.find("*/");
		if (e == std::string::npos) continue;
		std::string key = trim(l.substr(2, e - 2));
		std::string rest = trim(l.substr(e + 2));
		if (key == "children" || key == "completion" || key == "ancestors" || key == "target" || key == "conflicts" || key == "exit set")
			cur[key] = cInit(rest);
		else if (key == "parent" || key == "source" || key == "type")
			cur[key] = squeeze(rest);
	}
	flush();
	return o.str();
}

// <prefix>states[3].children[5] = 1;   <prefix>transitions[2].source = 4;   ....type[USCXML_TRANS_INTERNAL] = 1;
std::string parsePml(const std::string& text) {
	std::ostringstream o;
	for (const std::string& raw : lines(text)) {
		std::string l = trim(raw);
		for (const char* arr : { "states[", "transitions[" }) {
			size_t p = l.find(arr);
			if (p == std::string::npos) continue;
			// everything before must be one identifier (the prefix)
			bool ok = true;
			for (size_t i = 0; i < p; i++) if (!(isalnum((unsigned char)l[i]) || l[i] == '_')) ok = false;
			if (!ok) continue;
			size_t q = p + strlen(arr), q2 = l.find(']', q);
			if (q2 == std::string::npos) continue;
			std::string idx = l.substr(q, q2 - q);
			if (idx.empty() || !std::all_of(idx.begin(), idx.end(), ::isdigit)) continue;
			if (q2 + 1 >= l.size() || l[q2 + 1] != '.') continue;
			size_t eq = l.find(" = ", q2);
			if (eq == std::string::npos || l.back() != ';') continue;
			std::string field = l.substr(q2 + 2, eq - q2 - 2);
			std::string val = l.substr(eq + 3, l.size() - eq - 4);
			o << " " << (arr[0] == 's' ? "PS:" : "PT:") << idx << ":" << field << "=" << val;
		}
	}
	return o.str();
}

void numbersAfter(const std::string& s, const std::string& key, std::vector<std::string>& out) {
	size_t p = 0;
	while ((p = s.find(key, p)) != std::string::npos) {
		// must not be part of a longer identifier
		bool startOk = (p == 0) || !(isalnum((unsigned char)s[p - 1]) || s[p - 1] == '_');
		p += key.size();
		size_t q = p;
		while (q < s.size() && isdigit((unsigned char)s[q])) q++;
		if (startOk && q > p && s.compare(q, 4, "_sig") == 0) out.push_back(s.substr(p, q - p));
	}
}

std::string join(const std::vector<std::string>& v) {
	std::string o;
	for (size_t i = 0; i < v.size(); i++) o += (i ? "," : "") + v[i];
	return o.empty() ? "-" : o;
}

std::string parseVhdl(const std::string& text) {
	std::ostringstream o;
	std::string stmt;
	bool in = false;
	for (const std::string& raw : lines(text)) {
		std::string l = trim(raw);
		if (l.compare(0, 2, "--") == 0) {
			in = (l == "-- optimal transition set selection" || l == "-- exit set selection" || l == "-- complete entry set selection");
			stmt.clear();
			continue;
		}
		if (!in) continue;
		stmt += " " + l;
		if (l.find(';') == std::string::npos) continue;
		std::string s = trim(stmt);
		stmt.clear();
		size_t as = s.find("<=");
		if (as == std::string::npos) continue;
		std::string lhs = trim(s.substr(0, as)), rhs = s.substr(as + 2);
		std::vector<std::string> ids, ts, src;
		numbersAfter(lhs, "in_optimal_transition_set_", ids);
		if (!ids.empty() && lhs.compare(0, 26, "in_optimal_transition_set_") == 0) {
			numbersAfter(rhs, "in_optimal_transition_set_", ts);
			numbersAfter(rhs, "state_active_", src);
			o << " VT:" << ids[0] << ":" << join(src) << ":" << join(ts);
			continue;
		}
		numbersAfter(lhs, "in_exit_set_", ids);
		if (!ids.empty() && lhs.compare(0, 12, "in_exit_set_") == 0) {
			numbersAfter(rhs, "in_optimal_transition_set_", ts);
			o << " VX:" << ids[0] << ":" << join(ts);
			continue;
		}
		numbersAfter(lhs, "in_complete_entry_set_up_", ids);
		if (!ids.empty() && lhs.compare(0, 25, "in_complete_entry_set_up_") == 0) {
			numbersAfter(rhs, "in_optimal_transition_set_", ts);
			o << " VE:" << ids[0] << ":" << join(ts);
			continue;
		}
	}
	return o.str();
}

std::string cmd_tables(const std::vector<std::string>& a) {
	if (a.size() != 3) return "ERR usage";
	std::string xml = unhex(a[2]);
	Interpreter* inp = new Interpreter(Interpreter::fromXML(xml, ""));
	std::string result;
	try {
		Transformer tr;
		if (a[1] == "c") tr = ChartToC::transform(*inp);
		else if (a[1] == "pml") tr = ChartToPromela::transform(*inp);
		else if (a[1] == "vhdl") tr = ChartToVHDL::transform(*inp);
		else { vd_reap(inp); return "ERR backend"; }
		std::stringstream ss;
		tr.writeTo(ss);
		Ann ann;
		DOMDocument* doc = tr.getImpl()->getDocument();
		walk(doc->getDocumentElement(), ann, true);
		std::ostringstream o;
		o << "ann";
		for (auto& s : ann.states) o << " " << s;
		for (auto& t : ann.trans) o << " " << t.second;
		o << " ## out";
		if (a[1] == "c") o << parseC(ss.str());
		else if (a[1] == "pml") o << parsePml(ss.str());
		else o << parseVhdl(ss.str());
		result = o.str();
	} catch (Event& e) {
		result = "EVENT " + e.name;
	}
	vd_reap(inp);
	for (auto& ch : result) if (ch == '\n' || ch == '\r') ch = ' ';
	return result;
}

// tabletext <backend> <hex scxml>: the emitted text, hex (for debugging and replay)
std::string cmd_tabletext(const std::vector<std::string>& a) {
	if (a.size() != 3) return "ERR usage";
	Interpreter* inp = new Interpreter(Interpreter::fromXML(unhex(a[2]), ""));
	std::string result;
	try {
		Transformer tr;
		if (a[1] == "c") tr = ChartToC::transform(*inp);
		else if (a[1] == "pml") tr = ChartToPromela::transform(*inp);
		else tr = ChartToVHDL::transform(*inp);
		std::stringstream ss;
		tr.writeTo(ss);
		result = hex(ss.str());
	} catch (Event& e) {
		result = "EVENT " + e.name;
	}
	vd_reap(inp);
	return result;
}

}

VD_REGISTER(tables, cmd_tables)
VD_REGISTER(tabletext, cmd_tabletext)
