// vd_json.cpp -- vdriver commands of property C15 (Data <-> JSON, Event <-> Data).
//
// Tree format (whitespace-free, prefix):   node := ('V'|'I') hex(atom) '[' node* ']' '{' (hex(key) '=' node)* '}'
//   V/I = Data::VERBATIM / Data::INTERPRETED, hex() of the empty string is the empty string.
// Commands (all byte strings in hex, "-" = empty):
//   json-escape <hex>            -> hex of Data::jsonEscape
//   json-unescape <hex>          -> hex of Data::jsonUnescape
//   json-parse <hex>             -> "OK <tree>" | "ERR <error event name>:<cause-hex>"
//   json-tojson <tree>           -> hex of Data::toJSON
//   json-rt <tree>               -> "text=<hex> OK <tree> eq=<0|1>" | "text=<hex> ERR ..."
//   event-todata <event>         -> <tree>
//   event-fromdata <tree>        -> <event>
//   event-rt <event>             -> "data=<tree> event=<event> eq=<0|1>"   (eq = Event::operator==)
//   event := name raw eventType origin origintype sendid hideSendId invokeid uuid data-tree namelist-tree params-tree
//            (as consecutive arguments; namelist-tree is a compound, params-tree an array of one-key compounds)
#include "uscxml/config.h"
#include "uscxml/Common.h"
#include <string>
#include <vector>
#include <sstream>
#include <map>
#include <list>
#include "uscxml/messages/Data.h"
#include "uscxml/util/UUID.h"
// Event::uuid is private and has no setter; it takes part in Event <-> Data.  Only the access
// specifier of this one header is widened (all headers it includes are already included above).
#define private public
#include "uscxml/messages/Event.h"
#undef private

#include "vd_common.h"

using namespace uscxml;

namespace {

// jsonEscape / jsonUnescape are protected static members
struct DataAccess : public Data {
	static std::string esc(const std::string& s) { return jsonEscape(s); }
	static std::string unesc(const std::string& s) { return jsonUnescape(s); }
};

static std::string hexraw(const std::string& s) {
	static const char* d = "0123456789abcdef";
	std::string out;
	for (unsigned char c : s) { out.push_back(d[c >> 4]); out.push_back(d[c & 15]); }
	return out;
}

static void dump(const Data& d, std::string& out) {
	out.push_back(d.type == Data::VERBATIM ? 'V' : 'I');
	out += hexraw(d.getAtom());
	out.push_back('[');
	for (auto const& e : d.array) dump(e, out);
	out.push_back(']');
	out.push_back('{');
	for (auto const& kv : d.compound) {
		out += hexraw(kv.first);
		out.push_back('=');
		dump(kv.second, out);
	}
	out.push_back('}');
}

static std::string dump(const Data& d) { std::string s; dump(d, s); return s; }

struct TreeErr {};

static bool ishex(char c) { return (c >= '0' && c <= '9') || (c >= 'a' && c <= 'f'); }
static int hv(char c) { return c <= '9' ? c - '0' : c - 'a' + 10; }

static std::string rdhex(const std::string& s, size_t& i) {
	std::string out;
	while (i + 1 < s.size() && ishex(s[i]) && ishex(s[i + 1])) {
		out.push_back((char)(hv(s[i]) * 16 + hv(s[i + 1])));
		i += 2;
	}
	return out;
}

static Data rdtree(const std::string& s, size_t& i) {
	if (i >= s.size() || (s[i] != 'V' && s[i] != 'I')) throw TreeErr();
	Data d;
	d.setType(s[i] == 'V' ? Data::VERBATIM : Data::INTERPRETED);
	i++;
	d.atom = rdhex(s, i);
	if (i >= s.size() || s[i] != '[') throw TreeErr();
	i++;
	while (i < s.size() && s[i] != ']') d.array.push_back(rdtree(s, i));
	if (i >= s.size()) throw TreeErr();
	i++;
	if (i >= s.size() || s[i] != '{') throw TreeErr();
	i++;
	while (i < s.size() && s[i] != '}') {
		std::string k = rdhex(s, i);
		if (i >= s.size() || s[i] != '=') throw TreeErr();
		i++;
		d.compound[k] = rdtree(s, i);
	}
	if (i >= s.size()) throw TreeErr();
	i++;
	return d;
}

static Data tree(const std::string& s) {
	size_t i = 0;
	Data d = rdtree(s, i);
	if (i != s.size()) throw TreeErr();
	return d;
}

static std::string parse_outcome(const std::string& text, Data& out, bool& ok) {
	ok = false;
	try {
		out = Data::fromJSON(text);
		ok = true;
		return "OK " + dump(out);
	} catch (ErrorEvent& e) {
		std::string cause;
		if (e.data.hasKey("cause")) cause = e.data.at("cause").getAtom();
		return "ERR " + e.name + ":" + hex(cause);
	} catch (Event& e) {
		return "ERR event:" + hex(e.name);
	}
}

static std::string cmd_escape(const std::vector<std::string>& a) {
	if (a.size() != 2) return "ERR usage";
	return hex(DataAccess::esc(unhex(a[1])));
}
static std::string cmd_unescape(const std::vector<std::string>& a) {
	if (a.size() != 2) return "ERR usage";
	return hex(DataAccess::unesc(unhex(a[1])));
}
static std::string cmd_parse(const std::vector<std::string>& a) {
	if (a.size() != 2) return "ERR usage";
	Data d; bool ok;
	return parse_outcome(unhex(a[1]), d, ok);
}
static std::string cmd_tojson(const std::vector<std::string>& a) {
	if (a.size() != 2) return "ERR usage";
	try { return hex(Data::toJSON(tree(a[1]))); } catch (TreeErr&) { return "ERR tree"; }
}
static std::string cmd_rt(const std::vector<std::string>& a) {
	if (a.size() != 2) return "ERR usage";
	try {
		Data d = tree(a[1]);
		std::string text = Data::toJSON(d);
		Data back; bool ok;
		std::string r = parse_outcome(text, back, ok);
		std::string out = "text=" + hex(text) + " " + r;
		if (ok) out += (back == d) ? " eq=1" : " eq=0";
		return out;
	} catch (TreeErr&) { return "ERR tree"; }
}

static Event rdevent(const std::vector<std::string>& a, size_t o) {
	Event e;
	e.name = unhex(a[o + 0]);
	e.raw = unhex(a[o + 1]);
	e.eventType = (Event::Type)atoi(a[o + 2].c_str());
	e.origin = unhex(a[o + 3]);
	e.origintype = unhex(a[o + 4]);
	e.sendid = unhex(a[o + 5]);
	e.hideSendId = a[o + 6] == "1";
	e.invokeid = unhex(a[o + 7]);
	e.uuid = unhex(a[o + 8]);
	e.data = tree(a[o + 9]);
	e.namelist = tree(a[o + 10]).compound;
	Data ps = tree(a[o + 11]);
	for (auto const& p : ps.array) {
		if (p.compound.empty()) throw TreeErr();
		e.params.insert(std::make_pair(p.compound.begin()->first, p.compound.begin()->second));
	}
	return e;
}

static std::string dumpevent(const Event& e) {
	std::ostringstream os;
	Data nl; nl.compound = e.namelist;
	Data ps;
	for (auto const& p : e.params) {
		Data entry; entry.compound[p.first] = p.second;
		ps.array.push_back(entry);
	}
	os << hex(e.name) << " " << hex(e.raw) << " " << (int)e.eventType << " " << hex(e.origin) << " " << hex(e.origintype)
	   << " " << hex(e.sendid) << " " << (e.hideSendId ? "1" : "0") << " " << hex(e.invokeid) << " " << hex(e.uuid)
	   << " " << dump(e.data) << " " << dump(nl) << " " << dump(ps);
	return os.str();
}

static std::string cmd_event_todata(const std::vector<std::string>& a) {
	if (a.size() != 13) return "ERR usage";
	try { Event e = rdevent(a, 1); Data d = e; return dump(d); } catch (TreeErr&) { return "ERR tree"; }
}
static std::string cmd_event_fromdata(const std::vector<std::string>& a) {
	if (a.size() != 2) return "ERR usage";
	try { return dumpevent(Event::fromData(tree(a[1]))); } catch (TreeErr&) { return "ERR tree"; }
}
static std::string cmd_event_rt(const std::vector<std::string>& a) {
	if (a.size() != 13) return "ERR usage";
	try {
		Event e = rdevent(a, 1);
		Data d = e;
		Event back = Event::fromData(d);
		return "data=" + dump(d) + " event= " + dumpevent(back) + " eq=" + ((back == e) ? "1" : "0");
	} catch (TreeErr&) { return "ERR tree"; }
}

// "json-x" is not an identifier: register by hand
static VdReg r1("json-escape", cmd_escape);
static VdReg r2("json-unescape", cmd_unescape);
static VdReg r3("json-parse", cmd_parse);
static VdReg r4("json-tojson", cmd_tojson);
static VdReg r5("json-rt", cmd_rt);
static VdReg r6("event-todata", cmd_event_todata);
static VdReg r7("event-fromdata", cmd_event_fromdata);
static VdReg r8("event-rt", cmd_event_rt);

}
