/* cgen_harness.c -- C04: drives ONE machine emitted by ChartToC (uscxml-transform -tc).
 *
 *   gcc -DCGEN_MACHINE_FILE='"machine.c"' cgen_harness.c -o machine
 *
 * The emitted text is included unchanged, with the sizing macros, types and uscxml_step() the generator
 * itself wrote.  The callbacks are the scaffolding of test/src/test-gen-c.cpp reduced to the null datamodel:
 * two FIFO queues, event matching per SCXML 3.12.1, conditions `In('id')` evaluated against ctx->config,
 * everything else false.  Each input line `<fuel> <hex event>*` is one run of the driver loop of
 * coq/theories/Interp.v (step until DONE; on IDLE hand in the next external event; at most <fuel> steps);
 * the answer is one line of trace tokens (format of harness/vd_run.cpp where the same thing is observed):
 *   EV:<hex>      an event was dequeued (internal or external)
 *   RAISE:<hex>   exec_content_raise        SEND:<hex>   exec_content_send (to the session itself)
 *   DONE:<sid>    raise_done_event for state <sid>
 *   RET:<OK|IDLE|DONE|ERRn>  CFG:<sid,...>  H:<sid,...>   after every uscxml_step(): result, ctx->config, ctx->history
 * The input line `T` prints the emitted macros and tables instead (N:..., S:<i>:<parent>:<type>:<children>:<completion>:<ancestors>,
 * T:<j>:<source>:<type>:<target>:<conflicts>:<exit_set>:<has event><has condition>).
 */
#include <stdio.h>
#include <stdlib.h>
#include <string.h>
#include <signal.h>
#include <unistd.h>

#ifndef CGEN_MACHINE_FILE
#error "define CGEN_MACHINE_FILE"
#endif
#include CGEN_MACHINE_FILE

#define VH_NAME 96
#define VH_QMAX 4096
#define VH_OUT (1 << 20)

typedef struct { char name[VH_NAME]; } vh_event;

static vh_event vh_iq[VH_QMAX], vh_eq[VH_QMAX];
static int vh_iq_h, vh_iq_t, vh_eq_h, vh_eq_t;
static vh_event vh_cur;
static char vh_out[VH_OUT];
static size_t vh_len;

static void vh_flush_and_die(const char* why) {
	fwrite(vh_out, 1, vh_len, stdout);
	printf("%s\n", why);
	fflush(stdout);
	_exit(3);
}

static void vh_tok(const char* s) {
	size_t n = strlen(s);
	if (vh_len + n + 2 >= VH_OUT) vh_flush_and_die("OUTPUT-OVERFLOW");
	memcpy(vh_out + vh_len, s, n);
	vh_len += n;
	vh_out[vh_len++] = ' ';
}

static void vh_hex(char* dst, const char* s) {
	static const char* d = "0123456789abcdef";
	if (s == NULL || *s == 0) { strcpy(dst, "-"); return; }
	while (*s) { unsigned char c = (unsigned char)*s++; *dst++ = d[c >> 4]; *dst++ = d[c & 15]; }
	*dst = 0;
}

static void vh_tok_hex(const char* prefix, const char* s) {
	char buf[16 + 2 * VH_NAME];
	size_t n = strlen(prefix);
	memcpy(buf, prefix, n);
	vh_hex(buf + n, s);
	vh_tok(buf);
}

static void vh_push(vh_event* q, int* tail, const char* name) {
	if (*tail >= VH_QMAX) vh_flush_and_die("QUEUE-OVERFLOW");
	strncpy(q[*tail].name, name ? name : "", VH_NAME - 1);
	q[*tail].name[VH_NAME - 1] = 0;
	(*tail)++;
}

/* canonical id of the state with index i: "s<n>" -> n, the <scxml> root -> 0, unnamed pseudo-state -> #i */
static void vh_sid(char* dst, const uscxml_ctx* ctx, size_t i) {
	const char* nm = ctx->machine->states[i].name;
	if (nm == NULL) {
		if (i == 0) strcpy(dst, "0"); else sprintf(dst, "#%u", (unsigned)i);
	} else if (nm[0] == 's' && nm[1] >= '0' && nm[1] <= '9') {
		strcpy(dst, nm + 1);
	} else {
		strcpy(dst, nm);
	}
}

static void vh_set_tok(const char* prefix, const uscxml_ctx* ctx, const unsigned char* set) {
	char buf[8192];
	size_t n = strlen(prefix), i;
	int first = 1;
	memcpy(buf, prefix, n);
	for (i = 0; i < ctx->machine->nr_states; i++) {
		if (BIT_HAS(i, set)) {
			char one[VH_NAME];
			vh_sid(one, ctx, i);
			if (n + strlen(one) + 2 >= sizeof(buf)) vh_flush_and_die("SET-OVERFLOW");
			if (!first) buf[n++] = ',';
			strcpy(buf + n, one);
			n += strlen(one);
			first = 0;
		}
	}
	buf[n] = 0;
	vh_tok(buf);
}

/* ---- callbacks ---- */

static void* vh_dequeue_internal(const uscxml_ctx* ctx) {
	(void)ctx;
	if (vh_iq_h >= vh_iq_t) return NULL;
	vh_cur = vh_iq[vh_iq_h++];
	vh_tok_hex("EV:", vh_cur.name);
	return &vh_cur;
}

static void* vh_dequeue_external(const uscxml_ctx* ctx) {
	(void)ctx;
	if (vh_eq_h >= vh_eq_t) return NULL;
	vh_cur = vh_eq[vh_eq_h++];
	vh_tok_hex("EV:", vh_cur.name);
	return &vh_cur;
}

static int vh_is_space(char c) { return c == ' ' || (c >= 9 && c <= 13); }

/* SCXML 3.12.1: a descriptor matches if it is `*`, equals the name, or is a prefix of it that ends at a '.';
   a trailing ".*" or "." or "*" of the descriptor is ignored */
static int vh_name_match(const char* descs, const char* name) {
	size_t nlen = strlen(name);
	const char* p = descs;
	if (descs == NULL || *descs == 0 || nlen == 0) return 0;
	while (*p) {
		const char* b;
		size_t len;
		while (*p && vh_is_space(*p)) p++;
		if (!*p) break;
		b = p;
		while (*p && !vh_is_space(*p)) p++;
		len = (size_t)(p - b);
		if (len > 0 && b[len - 1] == '*') len--;
		if (len > 0 && b[len - 1] == '.') len--;
		if (len == 0) return 1;
		if (len <= nlen && strncmp(b, name, len) == 0 && (name[len] == 0 || name[len] == '.')) return 1;
	}
	return 0;
}

static int vh_is_matched(const uscxml_ctx* ctx, const uscxml_transition* t, const void* e) {
	(void)ctx;
	return vh_name_match(t->event, ((const vh_event*)e)->name);
}

/* null datamodel: In('id') against the configuration, anything else is false */
static int vh_is_true(const uscxml_ctx* ctx, const char* expr) {
	char id[VH_NAME];
	size_t i, n;
	const char* q;
	if (expr == NULL || strncmp(expr, "In('", 4) != 0) return 0;
	q = strchr(expr + 4, '\'');
	if (q == NULL) return 0;
	n = (size_t)(q - (expr + 4));
	if (n >= VH_NAME) return 0;
	memcpy(id, expr + 4, n);
	id[n] = 0;
	for (i = 0; i < ctx->machine->nr_states; i++) {
		if (ctx->machine->states[i].name != NULL && strcmp(ctx->machine->states[i].name, id) == 0)
			return BIT_HAS(i, ctx->config) ? 1 : 0;
	}
	return 0;
}

static int vh_raise_done_event(const uscxml_ctx* ctx, const uscxml_state* state, const uscxml_elem_donedata* donedata) {
	char nm[VH_NAME + 16], one[VH_NAME], tk[VH_NAME + 8];
	(void)donedata;
	vh_sid(one, ctx, (size_t)(state - ctx->machine->states));
	sprintf(tk, "DONE:%s", one);
	vh_tok(tk);
	sprintf(nm, "done.state.%s", state->name ? state->name : "");
	vh_push(vh_iq, &vh_iq_t, nm);
	return USCXML_ERR_OK;
}

static int vh_raise(const uscxml_ctx* ctx, const char* event) {
	(void)ctx;
	vh_tok_hex("RAISE:", event);
	vh_push(vh_iq, &vh_iq_t, event);
	return USCXML_ERR_OK;
}

static int vh_send(const uscxml_ctx* ctx, const uscxml_elem_send* send) {
	(void)ctx;
	if (send->target != NULL && strcmp(send->target, "#_internal") == 0) {
		vh_tok_hex("SENDI:", send->event);
		vh_push(vh_iq, &vh_iq_t, send->event);
		return USCXML_ERR_OK;
	}
	if (send->target != NULL || send->targetexpr != NULL || send->type != NULL || send->typeexpr != NULL ||
	        send->delay != 0 || send->delayexpr != NULL || send->eventexpr != NULL) {
		vh_tok("SEND-OUTSIDE-FRAGMENT");
		return USCXML_ERR_OK;
	}
	vh_tok_hex("SEND:", send->event);
	vh_push(vh_eq, &vh_eq_t, send->event);
	return USCXML_ERR_OK;
}

static int vh_log(const uscxml_ctx* ctx, const char* label, const char* expr) { (void)ctx; (void)label; (void)expr; vh_tok("LOG"); return USCXML_ERR_OK; }
static int vh_assign(const uscxml_ctx* ctx, const uscxml_elem_assign* a) { (void)ctx; (void)a; vh_tok("ASSIGN"); return USCXML_ERR_OK; }
static int vh_init(const uscxml_ctx* ctx, const uscxml_elem_data* d) { (void)ctx; (void)d; vh_tok("DATA"); return USCXML_ERR_OK; }
static int vh_cancel(const uscxml_ctx* ctx, const char* a, const char* b) { (void)ctx; (void)a; (void)b; vh_tok("CANCEL"); return USCXML_ERR_OK; }
static int vh_script(const uscxml_ctx* ctx, const char* a, const char* b) { (void)ctx; (void)a; (void)b; vh_tok("SCRIPT"); return USCXML_ERR_OK; }
static int vh_foreach_init(const uscxml_ctx* ctx, const uscxml_elem_foreach* f) { (void)ctx; (void)f; vh_tok("FOREACH"); return USCXML_ERR_OK; }
static int vh_foreach_next(const uscxml_ctx* ctx, const uscxml_elem_foreach* f) { (void)ctx; (void)f; return USCXML_ERR_FOREACH_DONE; }
static int vh_foreach_done(const uscxml_ctx* ctx, const uscxml_elem_foreach* f) { (void)ctx; (void)f; return USCXML_ERR_OK; }

static void vh_alarm(int sig) {
	(void)sig;
	/* uscxml_step() does not return */
	vh_flush_and_die("STEP-DOES-NOT-RETURN");
}

static int vh_unhex(char* dst, const char* h) {
	size_t n = 0;
	if (strcmp(h, "-") == 0) { dst[0] = 0; return 0; }
	while (h[0] && h[1] && n + 1 < VH_NAME) {
		unsigned v;
		if (sscanf(h, "%2x", &v) != 1) return -1;
		dst[n++] = (char)v;
		h += 2;
	}
	dst[n] = 0;
	return 0;
}

static void vh_run(int fuel, char** evs, int nev) {
	uscxml_ctx ctx;
	int next = 0;
	memset(&ctx, 0, sizeof(ctx));
	ctx.machine = &USCXML_MACHINE;
	ctx.dequeue_internal = vh_dequeue_internal;
	ctx.dequeue_external = vh_dequeue_external;
	ctx.is_matched = vh_is_matched;
	ctx.is_true = vh_is_true;
	ctx.raise_done_event = vh_raise_done_event;
	ctx.exec_content_log = vh_log;
	ctx.exec_content_raise = vh_raise;
	ctx.exec_content_send = vh_send;
	ctx.exec_content_foreach_init = vh_foreach_init;
	ctx.exec_content_foreach_next = vh_foreach_next;
	ctx.exec_content_foreach_done = vh_foreach_done;
	ctx.exec_content_assign = vh_assign;
	ctx.exec_content_init = vh_init;
	ctx.exec_content_cancel = vh_cancel;
	ctx.exec_content_script = vh_script;
	vh_iq_h = vh_iq_t = vh_eq_h = vh_eq_t = 0;
	vh_len = 0;
	while (fuel-- > 0) {
		int rc;
		char tk[32];
		alarm(20);
		rc = uscxml_step(&ctx);
		alarm(0);
		if (rc == USCXML_ERR_OK) vh_tok("RET:OK");
		else if (rc == USCXML_ERR_IDLE) vh_tok("RET:IDLE");
		else if (rc == USCXML_ERR_DONE) vh_tok("RET:DONE");
		else { sprintf(tk, "RET:ERR%d", rc); vh_tok(tk); }
		vh_set_tok("CFG:", &ctx, ctx.config);
		vh_set_tok("H:", &ctx, ctx.history);
		if (rc == USCXML_ERR_DONE) break;
		if (rc == USCXML_ERR_IDLE) {
			char nm[VH_NAME];
			if (next >= nev) break;
			if (vh_unhex(nm, evs[next++]) != 0) { vh_tok("BAD-EVENT"); break; }
			vh_push(vh_eq, &vh_eq_t, nm);
		} else if (rc != USCXML_ERR_OK) {
			break;
		}
	}
	fwrite(vh_out, 1, vh_len, stdout);
	fputc('\n', stdout);
	fflush(stdout);
}

static void vh_hexbytes(const unsigned char* a, size_t n) {
	size_t i;
	for (i = 0; i < n; i++) printf("%02x", a[i]);
}

/* the emitted tables and macros, for comparison with CGen.bmachine_of */
static void vh_tables(void) {
	const uscxml_machine* m = &USCXML_MACHINE;
	size_t i;
	printf("N:%u,%u,%u,%u,%u,%u", (unsigned)m->nr_states, (unsigned)m->nr_transitions, (unsigned)USCXML_MAX_NR_STATES_BYTES,
	       (unsigned)USCXML_MAX_NR_TRANS_BYTES, (unsigned)(8 * sizeof(USCXML_NR_STATES_TYPE)), (unsigned)(8 * sizeof(USCXML_NR_TRANS_TYPE)));
	for (i = 0; i < m->nr_states; i++) {
		const uscxml_state* s = &m->states[i];
		printf(" S:%u:%u:%u:", (unsigned)i, (unsigned)s->parent, (unsigned)s->type);
		vh_hexbytes(s->children, sizeof(s->children)); printf(":");
		vh_hexbytes(s->completion, sizeof(s->completion)); printf(":");
		vh_hexbytes(s->ancestors, sizeof(s->ancestors));
	}
	for (i = 0; i < m->nr_transitions; i++) {
		const uscxml_transition* t = &m->transitions[i];
		printf(" T:%u:%u:%u:", (unsigned)i, (unsigned)t->source, (unsigned)t->type);
		vh_hexbytes(t->target, sizeof(t->target)); printf(":");
		vh_hexbytes(t->conflicts, sizeof(t->conflicts)); printf(":");
		vh_hexbytes(t->exit_set, sizeof(t->exit_set));
		printf(":%d%d", t->event != NULL, t->condition != NULL);
	}
	printf("\n");
	fflush(stdout);
}

int main(void) {
	static char line[1 << 16];
	signal(SIGALRM, vh_alarm);
	while (fgets(line, sizeof(line), stdin) != NULL) {
		char* toks[512];
		int n = 0;
		char* p = strtok(line, " \t\r\n");
		while (p != NULL && n < 512) { toks[n++] = p; p = strtok(NULL, " \t\r\n"); }
		if (n == 0) { printf("\n"); continue; }
		if (strcmp(toks[0], "T") == 0) { vh_tables(); continue; }
		vh_run(atoi(toks[0]), toks + 1, n - 1);
	}
	return 0;
}
