// vd_resetrace.cpp -- C10: reset() against the timer thread (model: coq/theories/ResetRace.v).
//
// InterpreterImpl::reset() empties three things one after the other: the delayed-event timers
// (BasicDelayedEventQueue::reset), the external and the internal queue (BasicEventQueue::reset).  A
// delayed <send> of the previous life whose timer fires while reset() is under way must not leave
// anything behind.  The command forces the interleaving: the thread that calls reset() is held at
// one of the schedule points INSIDE the queues' reset functions
//      delay.reset.enter / delay.reset.done      BasicDelayedEventQueue::reset (done: _mutex still held)
//      queue.reset.enter / queue.reset.done      BasicEventQueue::reset        (done: _mutex still held)
// (there is deliberately no point between the statements of InterpreterImpl::reset() itself) while
// the short delayed send of the previous life becomes due; or the timer thread is held inside its
// callback (existing point delay.callback.unlocked) while reset() runs.
//
//   resetrace <engine> <kind> <hold> <k> <delay_ms> <hold_ms>
//        engine  default | large | fast
//        kind    ext : <send event="tick" delay=..>  (delivered to the external queue; s0 -tick-> stale)
//                int : <send event="tick" target="#_scxml_nosuchsession" delay=..>  (undeliverable: the timer
//                      thread puts error.communication into the INTERNAL queue; s0 -error.communication-> stale)
//        hold    none  | enter | done : the k-th arrival (k = 1..3) of the resetting thread at a *.reset.enter
//                (*.reset.done) point is held until the timer thread has delivered or until the send is
//                overdue by <hold_ms>;   cb : the timer thread is held at delay.callback.unlocked until
//                reset() has returned (k ignored)
//        The send is executed by the first life on the external event "go"; the second life is never
//        given "go", so a fresh interpreter stepped without events stays in s0 for ever.
//   answer (one line, key=value):
//        pre=ok|early|nosend   the timer had not fired when reset() was called / had / was never armed
//        hooks=<n>             arrivals of the resetting thread at *.reset.* points (0: tree without the hooks)
//        arrivals=<p,p,..>     their names in order,   held=<point>|-   delivered_in_hold=0|1
//        q1=<ext>/<int>        queue lengths right after reset() returned,  q2=... after the send was overdue
//        fired=<n>             callbacks delivered in total
//        after=<trace>         the reset interpreter stepped without events (results with configuration,
//                              repetitions removed),   fresh=<trace>  a new interpreter of the same document
//        end
//
//   destroyrace <engine> <kind> <hold> <alref> <delay_ms> <hold_ms>
//        destruction against the timer thread (model: coq/theories/ResetRaceDestroy.v).  The interpreter (on the
//        heap, one handle) is destroyed on a second thread while a delayed send of kind <kind> is
//        hold = none      still pending
//               unlocked  under way: its callback is held at delay.callback.unlocked (past its critical section)
//               locked    under way: its callback is held at interp.eventReady.locked (inside eventReady, holding _delayMutex)
//        The callback is released 20 ms after the destructor body has finished (point interp.destroy.done,
//        patches/C10-destroy-hooks.diff) or <hold_ms> after the destruction began, whichever comes first.
//        alref = 1: getActionLanguage() was called before, i.e. the ActionLanguage copy inside the interpreter holds a
//        second reference to the delayed queue.
//   answer: pre=ok|nosend  done_seen=0|1 (0: tree without the point)  released_by=done|timeout|-
//           after_done=<points the timer thread passed after interp.destroy.done>|-   (non-empty: the callback worked on
//           the object after its destructor body had finished -> members it uses are destroyed or about to be)
//           destroyed=1  end          (HANG / CRASH:sigN appended by the watchdog)
#include "uscxml/config.h"
#include "uscxml/Common.h"
#include "uscxml/Interpreter.h"
#include "uscxml/interpreter/InterpreterImpl.h"
#include "uscxml/interpreter/EventQueue.h"
#include "uscxml/interpreter/MicroStep.h"
#include "uscxml/plugins/Factory.h"
#include "uscxml/util/DOM.h"
#include "uscxml/util/VerifHooks.h"

#include <atomic>
#include <thread>
#include <chrono>
#include <mutex>
#include <string>
#include <vector>
#include <cstring>
#include <csignal>
#include <cerrno>
#include <fcntl.h>
#include <unistd.h>
#include <poll.h>
#include <sys/wait.h>
#include <sys/types.h>

#include "vd_common.h"

using namespace uscxml;

namespace vd_resetrace {

typedef std::chrono::steady_clock clk;

int g_out = 1;
void emit(const std::string& tok) {
	std::string s = tok + " ";
	ssize_t r = write(g_out, s.data(), s.size());
	(void)r;
}

// ---- the controller ------------------------------------------------------------------------------
thread_local bool tl_resetting = false;
std::atomic<int> g_cb_entered(0), g_cb_unlocked(0), g_delivered(0);
std::atomic<bool> g_reset_returned(false);
std::atomic<bool> g_hold_cb(false);
std::mutex g_m;
std::vector<std::string> g_arrivals;      // of the resetting thread
std::string g_hold_class;                 // "enter" | "done" | ""
int g_hold_k = 0;
int g_seen_of_class = 0;
std::string g_held = "-";
bool g_delivered_in_hold = false;
clk::time_point g_hold_deadline;

bool ends_with(const char* s, const char* suf) {
	size_t a = strlen(s), b = strlen(suf);
	return a >= b && strcmp(s + a - b, suf) == 0;
}

// ---- destruction: second controller state
thread_local bool tl_destroying = false;
std::atomic<bool> g_dmode(false);
std::string g_dhold_point;                // point at which the timer thread is held ("" = none)
std::atomic<int> g_dhold_arrived(0);
std::atomic<bool> g_done_seen(false), g_destroy_started(false);
clk::time_point g_done_time, g_destroy_time;
int g_dhold_ms = 60;
std::string g_released_by = "-";
std::vector<std::string> g_after_done;    // timer-thread arrivals after interp.destroy.done

void destroy_point(const char* name) {
	if (tl_destroying) {
		if (strcmp(name, "interp.destroy.done") == 0) {
			std::lock_guard<std::mutex> lk(g_m);
			g_done_time = clk::now();
			g_done_seen = true;
		}
		return;
	}
	bool cb_point = strncmp(name, "delay.callback.", 15) == 0 || strncmp(name, "interp.eventReady.", 18) == 0;
	if (!cb_point) return;
	if (g_done_seen.load()) {
		std::lock_guard<std::mutex> lk(g_m);
		g_after_done.push_back(name);
	}
	if (strcmp(name, "delay.callback.delivered") == 0) g_delivered++;
	if (!g_dhold_point.empty() && g_dhold_point == name && g_dhold_arrived.load() == 0) {
		g_dhold_arrived++;
		clk::time_point limit = clk::now() + std::chrono::milliseconds(4000);
		for (;;) {
			clk::time_point now = clk::now();
			if (now > limit) { std::lock_guard<std::mutex> lk(g_m); g_released_by = "limit"; break; }
			{
				std::lock_guard<std::mutex> lk(g_m);
				if (g_done_seen.load() && now >= g_done_time + std::chrono::milliseconds(20)) { g_released_by = "done"; break; }
				if (g_destroy_started.load() && now >= g_destroy_time + std::chrono::milliseconds(g_dhold_ms)) { g_released_by = "timeout"; break; }
			}
			std::this_thread::sleep_for(std::chrono::microseconds(200));
		}
	}
}

void rr_point(const char* name) {
	if (g_dmode.load()) { destroy_point(name); return; }
	if (tl_resetting) {
		bool is_enter = ends_with(name, ".reset.enter");
		bool is_done = ends_with(name, ".reset.done");
		if (!is_enter && !is_done) return;
		bool hold = false;
		{
			std::lock_guard<std::mutex> lk(g_m);
			g_arrivals.push_back(name);
			if ((is_enter && g_hold_class == "enter") || (is_done && g_hold_class == "done")) {
				g_seen_of_class++;
				if (g_seen_of_class == g_hold_k) { hold = true; g_held = name; }
			}
		}
		if (hold) {
			int before = g_delivered.load();
			while (g_delivered.load() == before && clk::now() < g_hold_deadline)
				std::this_thread::sleep_for(std::chrono::microseconds(200));
			// the callback returns right after the delivery; give it that moment
			if (g_delivered.load() != before) {
				std::lock_guard<std::mutex> lk(g_m);
				g_delivered_in_hold = true;
			}
		}
		return;
	}
	if (strcmp(name, "delay.callback.enter") == 0) g_cb_entered++;
	else if (strcmp(name, "delay.callback.unlocked") == 0) {
		g_cb_unlocked++;
		if (g_hold_cb.load()) {
			clk::time_point dl = clk::now() + std::chrono::milliseconds(3000);
			while (!g_reset_returned.load() && clk::now() < dl)
				std::this_thread::sleep_for(std::chrono::microseconds(200));
		}
	} else if (strcmp(name, "delay.callback.delivered") == 0) g_delivered++;
}

// ---- helpers -------------------------------------------------------------------------------------
const char* state_name(InterpreterState s) {
	switch (s) {
	case USCXML_FINISHED: return "FINISHED";
	case USCXML_UNDEF: return "UNDEF";
	case USCXML_IDLE: return "IDLE";
	case USCXML_INITIALIZED: return "INITIALIZED";
	case USCXML_INSTANTIATED: return "INSTANTIATED";
	case USCXML_MICROSTEPPED: return "MICROSTEPPED";
	case USCXML_MACROSTEPPED: return "MACROSTEPPED";
	case USCXML_CANCELLED: return "CANCELLED";
	}
	return "?";
}

Interpreter make_interpreter(const std::string& engine, const std::string& xml) {
	Interpreter ip = Interpreter::fromXML(xml, "");
	if (engine == "large" || engine == "fast") {
		ActionLanguage al;
		al.microStepper = MicroStep(Factory::getInstance()->createMicroStepper(engine, ip.getImpl().get()));
		ip.setActionLanguage(al);
	}
	return ip;
}

std::string config_of(Interpreter& ip) {
	std::string out;
	std::list<XERCESC_NS::DOMElement*> cfg = ip.getConfiguration();
	for (auto el : cfg) {
		if (!el->hasAttribute(X("id"))) continue;
		if (!out.empty()) out += ",";
		out += X(el->getAttribute(X("id"))).str();
	}
	return out;
}

// step(0) without events until the machine is idle (twice) or finished; consecutive repetitions removed
std::string run_quiet(Interpreter& ip, int maxsteps) {
	std::string trace, last;
	int idle = 0;
	for (int i = 0; i < maxsteps; i++) {
		InterpreterState r = ip.step(0);
		std::string tok = std::string(state_name(r)) + "{" + config_of(ip) + "}";
		if (tok != last) {
			if (!trace.empty()) trace += ">";
			trace += tok;
			last = tok;
		}
		if (r == USCXML_FINISHED) break;
		if (r == USCXML_IDLE && ++idle >= 3) break;
	}
	return trace.empty() ? "-" : trace;
}

size_t queue_len(EventQueue q) {
	if (!q) return 0;
	Data d = q.serialize();
	if (!d.hasKey("BasicEventQueue")) return 0;
	return d["BasicEventQueue"].array.size();
}

std::string chart(const std::string& kind, int delay_ms) {
	std::string send = kind == "int"
	                   ? "<send event=\"tick\" target=\"#_scxml_nosuchsession\" delay=\"" + std::to_string(delay_ms) + "ms\"/>"
	                   : "<send event=\"tick\" delay=\"" + std::to_string(delay_ms) + "ms\"/>";
	return "<scxml datamodel=\"null\" initial=\"s0\"><state id=\"s0\">"
	       "<transition event=\"go\">" + send + "</transition>"
	       "<transition event=\"tick\" target=\"stale\"/>"
	       "<transition event=\"error.communication\" target=\"stale\"/>"
	       "</state><state id=\"stale\"/></scxml>";
}

void sleep_until(clk::time_point t) {
	while (clk::now() < t) std::this_thread::sleep_for(std::chrono::microseconds(300));
}

// ---- the case (runs in a forked child) -------------------------------------------------------------
void child_resetrace(const std::vector<std::string>& a) {
	const std::string& engine = a[1];
	const std::string& kind = a[2];
	const std::string& hold = a[3];
	int k = atoi(a[4].c_str());
	int delay_ms = atoi(a[5].c_str());
	int hold_ms = atoi(a[6].c_str());
	std::string xml = chart(kind, delay_ms);

	uscxml_verif_point = rr_point;
	Interpreter ip = make_interpreter(engine, xml);
	// first life: idle in s0
	for (int i = 0; i < 30; i++) {
		InterpreterState r = ip.step(0);
		if (r == USCXML_IDLE || r == USCXML_FINISHED) break;
	}
	g_hold_cb = (hold == "cb");
	if (hold == "enter" || hold == "done") { g_hold_class = hold; g_hold_k = k; }
	Event go;
	go.name = "go";
	ip.receive(go);
	clk::time_point t_sched = clk::now();
	// the targetless transition with the <send>: one micro-step, then the machine is idle again
	for (int i = 0; i < 30; i++) {
		InterpreterState r = ip.step(0);
		if (r == USCXML_IDLE || r == USCXML_FINISHED) break;
	}
	clk::time_point overdue = t_sched + std::chrono::milliseconds(delay_ms + hold_ms);
	g_hold_deadline = overdue;
	std::string pre = "ok";
	if (hold == "cb") {
		// wait until the timer thread is inside its callback, past its critical section
		clk::time_point dl = clk::now() + std::chrono::milliseconds(delay_ms + 2000);
		while (g_cb_unlocked.load() == 0 && clk::now() < dl)
			std::this_thread::sleep_for(std::chrono::microseconds(200));
		if (g_cb_unlocked.load() == 0) pre = "nosend";
	} else if (g_cb_entered.load() > 0) {
		pre = "early";
	}
	if (!ip.isInState("s0")) pre = "early";

	tl_resetting = true;
	ip.reset();
	tl_resetting = false;
	size_t e1 = queue_len(ip.getActionLanguage()->externalQueue);
	size_t i1 = queue_len(ip.getActionLanguage()->internalQueue);
	g_reset_returned = true;

	// let a timer that escaped the reset become due (and a held callback finish)
	if (hold == "cb") {
		clk::time_point dl = clk::now() + std::chrono::milliseconds(1000);
		while (g_delivered.load() == 0 && clk::now() < dl)
			std::this_thread::sleep_for(std::chrono::microseconds(200));
	} else {
		sleep_until(overdue + std::chrono::milliseconds(5));
	}
	std::this_thread::sleep_for(std::chrono::milliseconds(2));
	size_t e2 = queue_len(ip.getActionLanguage()->externalQueue);
	size_t i2 = queue_len(ip.getActionLanguage()->internalQueue);

	std::string after = run_quiet(ip, 40);

	std::string arr;
	int narr = 0;
	{
		std::lock_guard<std::mutex> lk(g_m);
		for (auto& p : g_arrivals) { if (!arr.empty()) arr += ","; arr += p; narr++; }
	}
	uscxml_verif_point = 0;
	Interpreter fresh = make_interpreter(engine, xml);
	std::string fr = run_quiet(fresh, 40);

	emit("pre=" + pre);
	emit("hooks=" + std::to_string(narr));
	emit("arrivals=" + (arr.empty() ? std::string("-") : arr));
	emit("held=" + g_held);
	emit(std::string("delivered_in_hold=") + (g_delivered_in_hold ? "1" : "0"));
	emit("q1=" + std::to_string(e1) + "/" + std::to_string(i1));
	emit("q2=" + std::to_string(e2) + "/" + std::to_string(i2));
	emit("fired=" + std::to_string(g_delivered.load()));
	emit("after=" + after);
	emit("fresh=" + fr);
	emit("end");
	// the interpreters are not destroyed: tear-down is the subject of `teardown`, the child exits
}

void child_destroyrace(const std::vector<std::string>& a) {
	const std::string& engine = a[1];
	const std::string& kind = a[2];
	const std::string& hold = a[3];
	bool alref = a[4] == "1";
	int delay_ms = atoi(a[5].c_str());
	g_dhold_ms = atoi(a[6].c_str());
	std::string xml = chart(kind, delay_ms);
	if (hold == "unlocked") g_dhold_point = "delay.callback.unlocked";
	else if (hold == "locked") g_dhold_point = "interp.eventReady.locked";
	g_dmode = true;
	uscxml_verif_point = rr_point;
	Interpreter* ip = new Interpreter(make_interpreter(engine, xml));
	for (int i = 0; i < 30; i++) {
		InterpreterState r = ip->step(0);
		if (r == USCXML_IDLE || r == USCXML_FINISHED) break;
	}
	if (alref) (void)ip->getActionLanguage();
	Event go;
	go.name = "go";
	ip->receive(go);
	for (int i = 0; i < 30; i++) {
		InterpreterState r = ip->step(0);
		if (r == USCXML_IDLE || r == USCXML_FINISHED) break;
	}
	std::string pre = "ok";
	if (!g_dhold_point.empty()) {
		clk::time_point dl = clk::now() + std::chrono::milliseconds(delay_ms + 2000);
		while (g_dhold_arrived.load() == 0 && clk::now() < dl)
			std::this_thread::sleep_for(std::chrono::microseconds(200));
		if (g_dhold_arrived.load() == 0) pre = "nosend";
	}
	emit("pre=" + pre);
	std::atomic<bool> destroyed(false);
	std::thread t([&] {
		tl_destroying = true;
		{
			std::lock_guard<std::mutex> lk(g_m);
			g_destroy_time = clk::now();
			g_destroy_started = true;
		}
		delete ip;
		destroyed = true;
	});
	t.join();       // a destruction that does not return is HANG (watchdog of the parent)
	// let a callback that is still running finish before the verdict is read
	std::this_thread::sleep_for(std::chrono::milliseconds(5));
	std::string after;
	{
		std::lock_guard<std::mutex> lk(g_m);
		for (auto& p : g_after_done) { if (!after.empty()) after += ","; after += p; }
		emit(std::string("done_seen=") + (g_done_seen.load() ? "1" : "0"));
		emit("released_by=" + g_released_by);
	}
	emit("after_done=" + (after.empty() ? std::string("-") : after));
	emit("fired=" + std::to_string(g_delivered.load()));
	emit(std::string("destroyed=") + (destroyed.load() ? "1" : "0"));
	emit("end");
}

std::string run_child(void (*body)(const std::vector<std::string>&), const std::vector<std::string>& a, int watchdog_ms) {
	int fds[2];
	if (pipe(fds) != 0) return "ERR pipe";
	fflush(stdout);
	pid_t pid = fork();
	if (pid < 0) return "ERR fork";
	if (pid == 0) {
		close(fds[0]);
		g_out = fds[1];
		int devnull = open("/dev/null", O_WRONLY);
		if (devnull >= 0) { dup2(devnull, 1); dup2(devnull, 2); }
		body(a);
		_exit(0);
	}
	close(fds[1]);
	std::string out;
	auto deadline = clk::now() + std::chrono::milliseconds(watchdog_ms);
	bool hang = false;
	for (;;) {
		int left = (int)std::chrono::duration_cast<std::chrono::milliseconds>(deadline - clk::now()).count();
		if (left <= 0) { hang = true; break; }
		struct pollfd p = { fds[0], POLLIN, 0 };
		int r = poll(&p, 1, left);
		if (r < 0) { if (errno == EINTR) continue; break; }
		if (r == 0) { hang = true; break; }
		char buf[4096];
		ssize_t n = read(fds[0], buf, sizeof(buf));
		if (n <= 0) break;
		out.append(buf, n);
	}
	close(fds[0]);
	int status = 0;
	if (hang) {
		kill(pid, SIGKILL);
		waitpid(pid, &status, 0);
		out += "HANG";
	} else {
		waitpid(pid, &status, 0);
		if (WIFSIGNALED(status)) out += "CRASH:sig" + std::to_string(WTERMSIG(status));
		else if (WIFEXITED(status) && WEXITSTATUS(status) != 0) out += "CRASH:exit" + std::to_string(WEXITSTATUS(status));
	}
	while (!out.empty() && out.back() == ' ') out.pop_back();
	return out;
}

std::string cmd_resetrace(const std::vector<std::string>& a) {
	if (a.size() < 7) return "ERR usage: resetrace <engine> <ext|int> <none|enter|done|cb> <k> <delay_ms> <hold_ms>";
	return run_child(child_resetrace, a, 8000);
}

std::string cmd_destroyrace(const std::vector<std::string>& a) {
	if (a.size() < 7) return "ERR usage: destroyrace <engine> <ext|int> <none|unlocked|locked> <alref 0|1> <delay_ms> <hold_ms>";
	return run_child(child_destroyrace, a, 8000);
}

}  // namespace vd_resetrace

VD_REGISTER(resetrace, vd_resetrace::cmd_resetrace)
VD_REGISTER(destroyrace, vd_resetrace::cmd_destroyrace)
